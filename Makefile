# Builds blocsim (the simulator) per sanitizer flavour directly from /repo's working tree.
#   make -j16 all            all flavours
#   make -j16 F=asan one     one flavour
REPO ?= /repo
# the directory this Makefile lives in (normally /verif; a snapshot copy builds from its own sources)
VERIF := $(patsubst %/,%,$(dir $(abspath $(lastword $(MAKEFILE_LIST)))))
F ?= asan
B := build/$(F)
CXX := clang++
CC := clang
LIBVERSION := 2.9.3
LIBSOVERSION := 2.9

SAN_asan := -fsanitize=address,undefined -fno-sanitize-recover=undefined -fno-omit-frame-pointer
SAN_tsan := -fsanitize=thread -fno-omit-frame-pointer
SAN_plain :=
SAN := $(SAN_$(F))
OPT := -O1 -g
# the library's own compile-time trace switches are on: every trace point is a scheduling point for the simulator (BLOC_VERIF hook in bloc::DBG)
DEFS := -DBLOC_VERIF -DDEBUG_COMPLEX -DDEBUG_SYMBOL -DDEBUG_VALUE '-DLIBVERSION="$(LIBVERSION)"' '-DLIBSOVERSION="$(LIBSOVERSION)"' -DLIB_DLL_EXPORTS '-DSIM_FLAVOUR="$(F)"'
INC := -I$(REPO) -I$(REPO)/blocc -I$(VERIF)/sim -I$(VERIF)
CXXFLAGS := -std=c++17 $(OPT) $(SAN) $(DEFS) $(INC) -fPIC -Wno-deprecated-declarations -MMD -MP
CFLAGS := $(OPT) $(SAN) $(DEFS) $(INC) -fPIC -MMD -MP -Wno-unused-function
# sources that must stay invisible to ThreadSanitizer (scheduler hand-off, plugin host)
NOSAN_CXXFLAGS := -std=c++17 $(OPT) $(if $(filter tsan,$(F)),,$(SAN)) $(DEFS) $(INC) -fPIC -MMD -MP
NOSAN_CFLAGS := $(OPT) $(DEFS) $(INC) -fPIC -MMD -MP

BLOCC_CPP := $(wildcard $(REPO)/blocc/*.cpp $(REPO)/blocc/member/*.cpp $(REPO)/blocc/operator/*.cpp $(REPO)/blocc/builtin/*.cpp)
BLOCC_C := $(REPO)/blocc/lex._tokenizer.c $(REPO)/blocc/readstdin.c
APPS_CPP := $(addprefix $(REPO)/apps/,main.cpp main_options.cpp cli_parser.cpp cli_msgdb.cpp read_file.cpp signalhandler.cpp)
SIM_CPP := $(filter-out $(VERIF)/sim/seams/vfhost.cpp $(VERIF)/sim/seams/atomicwrap.cpp,$(wildcard $(VERIF)/sim/core/*.cpp $(VERIF)/sim/seams/*.cpp $(VERIF)/sim/gen/*.cpp $(VERIF)/sim/ref/*.cpp $(VERIF)/sim/oracle/*.cpp $(VERIF)/sim/props/*.cpp))

obj = $(patsubst %,$(B)/obj/%.o,$(subst /,_,$(1)))
BLOCC_OBJ := $(foreach s,$(BLOCC_CPP) $(BLOCC_C),$(call obj,$(s)))
APPS_OBJ := $(foreach s,$(APPS_CPP),$(call obj,$(s)))
SIM_OBJ := $(foreach s,$(SIM_CPP),$(call obj,$(s)))
NOSAN_OBJ := $(B)/obj/handoff.o $(B)/obj/vfhost.o $(B)/obj/atomicwrap.o

MODS := csv file utf8 sqlite3
MOD_SO := $(foreach m,$(MODS),$(B)/libbloc_$(m).so.$(LIBSOVERSION)) $(B)/libbloc_vf.so.$(LIBSOVERSION) $(B)/libbloc_vg.so.$(LIBSOVERSION)

.PHONY: all one clean baseline_off
all:
	+$(MAKE) F=asan one
	+$(MAKE) F=tsan one
	+$(MAKE) F=plain one

one: $(B)/blocsim $(MOD_SO)

$(B)/obj/.dir:
	@mkdir -p $(B)/obj && touch $@

define compile_rule
$(call obj,$(1)): $(1) | $(B)/obj/.dir
	@echo "  CC $$(notdir $$<) [$(F)]"
	@$(2) -c $$< -o $$@
endef
$(foreach s,$(BLOCC_CPP),$(eval $(call compile_rule,$(s),$(CXX) $(CXXFLAGS))))
$(foreach s,$(BLOCC_C),$(eval $(call compile_rule,$(s),$(CC) $(CFLAGS))))
$(foreach s,$(APPS_CPP),$(eval $(call compile_rule,$(s),$(CXX) $(CXXFLAGS) -Dmain=bloc_cli_main -DENABLE_READLINE)))
$(foreach s,$(SIM_CPP),$(eval $(call compile_rule,$(s),$(CXX) $(CXXFLAGS))))

$(B)/obj/handoff.o: $(VERIF)/sim/core/handoff.c | $(B)/obj/.dir
	@$(CC) $(NOSAN_CFLAGS) -c $< -o $@
$(B)/obj/vfhost.o: $(VERIF)/sim/seams/vfhost.cpp | $(B)/obj/.dir
	@$(CXX) $(NOSAN_CXXFLAGS) -c $< -o $@

$(B)/obj/atomicwrap.o: $(VERIF)/sim/seams/atomicwrap.cpp | $(B)/obj/.dir
	@$(CXX) $(NOSAN_CXXFLAGS) $(if $(filter tsan,$(F)),-DSIM_ATOMIC_WRAPS,) -c $< -o $@

WRAPS := -Wl,--wrap=select -Wl,--wrap=dlopen
# tsan flavour: the 32-bit atomic entry points of the ThreadSanitizer runtime are wrapped (sim/seams/atomicwrap.cpp)
ifeq ($(F),tsan)
WRAPS += $(foreach f,load store fetch_add fetch_sub exchange compare_exchange_strong compare_exchange_weak,-Wl,--wrap=__tsan_atomic32_$(f))
endif
$(B)/blocsim: $(BLOCC_OBJ) $(APPS_OBJ) $(SIM_OBJ) $(NOSAN_OBJ)
	@echo "  LINK $@"
	@$(CXX) $(SAN) -rdynamic $(WRAPS) -Wl,-rpath,'$$ORIGIN' -o $@ $^ -ldl -lm -lpthread -lsqlite3

# modules from /repo/modules, as shared objects next to the binary
$(B)/libbloc_csv.so.$(LIBSOVERSION): $(wildcard $(REPO)/modules/csv/*.cpp) $(wildcard $(REPO)/modules/csv/*.h) | $(B)/obj/.dir
	@echo "  SO $@"
	@$(CXX) $(CXXFLAGS) -shared -o $@ $(filter %.cpp,$^)
$(B)/libbloc_utf8.so.$(LIBSOVERSION): $(wildcard $(REPO)/modules/utf8/*.cpp) $(wildcard $(REPO)/modules/utf8/*.h) | $(B)/obj/.dir
	@echo "  SO $@"
	@$(CXX) $(CXXFLAGS) -shared -o $@ $(filter %.cpp,$^)
# the file module's fopen is wrapped: it resolves __wrap_fopen from the simulator (sim/props/C18.cpp)
$(B)/libbloc_file.so.$(LIBSOVERSION): $(wildcard $(REPO)/modules/file/*.cpp) $(wildcard $(REPO)/modules/file/*.h) | $(B)/obj/.dir
	@echo "  SO $@"
	@$(CXX) $(CXXFLAGS) -shared -Wl,--wrap=fopen -o $@ $(filter %.cpp,$^)
$(B)/libbloc_sqlite3.so.$(LIBSOVERSION): $(wildcard $(REPO)/modules/sqlite3/*.cpp) $(wildcard $(REPO)/modules/sqlite3/*.h) | $(B)/obj/.dir
	@echo "  SO $@"
	@$(CXX) $(CXXFLAGS) -shared -o $@ $(filter %.cpp,$^) -lsqlite3
$(B)/libbloc_vf.so.$(LIBSOVERSION): $(VERIF)/sim/vf/plugin_vf.cpp $(VERIF)/sim/vf/plugin_vf.h $(VERIF)/sim/vf/vf_host.h $(VERIF)/sim/vf/vf_object.h | $(B)/obj/.dir
	@echo "  SO $@"
	@$(CXX) $(CXXFLAGS) '-DVF_MODNAME="vf"' -DVF_MODNUM=1 -shared -o $@ $<
$(B)/libbloc_vg.so.$(LIBSOVERSION): $(VERIF)/sim/vf/plugin_vf.cpp $(VERIF)/sim/vf/plugin_vf.h $(VERIF)/sim/vf/vf_host.h $(VERIF)/sim/vf/vf_object.h | $(B)/obj/.dir
	@echo "  SO $@"
	@$(CXX) $(CXXFLAGS) '-DVF_MODNAME="vg"' -DVF_MODNUM=2 -shared -o $@ $<

clean:
	rm -rf build out

-include $(wildcard $(B)/obj/*.d)
