// Verification-only BLOC module. Built twice: as "vf" and as "vg" (C16).
// Fault points are ordinary method calls: v.pt(id, value) returns value or
// throws the RuntimeError the plan prescribes (the documented module error path).
#include "plugin_vf.h"
#include "vf_host.h"
#include "vf_object.h"
#include <blocc/exception_runtime.h>
#include <blocc/value.h>
#include <cstdio>
#include <cstring>
#include <string>

#ifndef VF_MODNAME
#define VF_MODNAME "vf"
#endif
#ifndef VF_MODNUM
#define VF_MODNUM 1
#endif

PLUGINCREATOR(VFPlugin)

namespace bloc
{
namespace plugin
{
namespace vf
{

static PLUGIN_TYPE ctor_1_args[] = { { "I", 0 } };

static PLUGIN_CTOR ctors[] =
{
  { 0, 0, nullptr,      "Build a new verification object." },
  { 1, 1, ctor_1_args,  "Build a new verification object with a tag." },
};

enum Method { Pt = 0, Pb, Ps, Pn, Px, Id, Tag, Get, Set, Me, Echo, Sum, Yield, Out, };

static PLUGIN_ARG pt_args[] = { { PLUGIN_IN, { "I", 0 } }, { PLUGIN_IN, { "I", 0 } } };
static PLUGIN_ARG pb_args[] = { { PLUGIN_IN, { "I", 0 } }, { PLUGIN_IN, { "B", 0 } } };
static PLUGIN_ARG ps_args[] = { { PLUGIN_IN, { "I", 0 } }, { PLUGIN_IN, { "L", 0 } } };
static PLUGIN_ARG pn_args[] = { { PLUGIN_IN, { "I", 0 } }, { PLUGIN_IN, { "N", 0 } } };
static PLUGIN_ARG px_args[] = { { PLUGIN_IN, { "I", 0 } }, { PLUGIN_IN, { "X", 0 } } };
static PLUGIN_ARG i_args[]  = { { PLUGIN_IN, { "I", 0 } } };
static PLUGIN_ARG l_args[]  = { { PLUGIN_IN, { "L", 0 } } };
static PLUGIN_ARG ii_args[] = { { PLUGIN_IN, { "I", 0 } }, { PLUGIN_IN, { "I", 0 } } };
static PLUGIN_ARG out_args[] = { { PLUGIN_INOUT, { "I", 0 } } };

static PLUGIN_METHOD methods[] =
{
  { Pt,    "pt",    { "I", 0 }, 2, pt_args,  "fault point returning an integer" },
  { Pb,    "pb",    { "B", 0 }, 2, pb_args,  "fault point returning a boolean" },
  { Ps,    "ps",    { "L", 0 }, 2, ps_args,  "fault point returning a string" },
  { Pn,    "pn",    { "N", 0 }, 2, pn_args,  "fault point returning a decimal" },
  { Px,    "px",    { "X", 0 }, 2, px_args,  "fault point returning bytes" },
  { Id,    "id",    { "I", 0 }, 0, nullptr,  "ledger id of the object" },
  { Tag,   "tag",   { "I", 0 }, 0, nullptr,  "tag given to the constructor" },
  { Get,   "get",   { "I", 0 }, 0, nullptr,  "mutable state of the object" },
  { Set,   "set",   { "O", 0 }, 1, i_args,   "set the mutable state, returns the object" },
  { Me,    "me",    { "O", 0 }, 0, nullptr,  "returns the object" },
  { Echo,  "echo",  { "L", 0 }, 1, l_args,   "returns its argument" },
  { Sum,   "sum",   { "I", 0 }, 2, ii_args,  "returns the sum of its arguments" },
  { Yield, "yield", { "I", 0 }, 1, i_args,   "scheduler yield point" },
  { Out,   "out",   { "I", 0 }, 1, out_args, "stores the state in the INOUT variable, returns the old content" },
};

static std::string dump(bloc::Value& v)
{
  char buf[64];
  if (v.isNull())
    return "null";
  switch (v.type().major())
  {
  case bloc::Type::BOOLEAN:
    return *v.boolean() ? "T" : "F";
  case bloc::Type::INTEGER:
    snprintf(buf, sizeof(buf), "%lld", (long long) *v.integer());
    return buf;
  case bloc::Type::NUMERIC:
    snprintf(buf, sizeof(buf), "%.17g", *v.numeric());
    return buf;
  case bloc::Type::LITERAL:
    return "\"" + *v.literal() + "\"";
  case bloc::Type::TABCHAR:
    return "x" + std::string(v.tabchar()->data(), v.tabchar()->size());
  default:
    return "?";
  }
}

static void point(bloc::Context& ctx, bloc::Value& id)
{
  SimVfFault f;
  memset(&f, 0, sizeof(f));
  simvf_point(VF_MODNUM, id.isNull() ? -1 : (long) *id.integer(), &ctx, &f);
  if (f.fire)
  {
    f.arg[sizeof(f.arg) - 1] = '\0';
    switch (f.code)
    {
    case EXC_RT_USER_S:
    case EXC_RT_OTHER_S:
    case EXC_RT_INTERNAL_ERROR_S:
    case EXC_RT_UNDEFINED_SYMBOL_S:
    case EXC_RT_CTOR_FAILED_S:
    case EXC_RT_MEMB_FAILED_S:
    case EXC_RT_BAD_COMPLEX_S:
    case EXC_RT_INDEX_RANGE_S:
    case EXC_RT_TYPE_MISMATCH_S:
    case EXC_RT_FUNC_ARG_TYPE_S:
    case EXC_RT_MEMB_ARG_TYPE_S:
    case EXC_RT_MEMB_NOT_IMPL_S:
    case EXC_RT_CONST_VIOLATION_S:
      throw RuntimeError((EXC_RT) f.code, f.arg);
    default:
      throw RuntimeError((EXC_RT) f.code);
    }
  }
}

} /* namespace vf */

void VFPlugin::declareInterface(PLUGIN_INTERFACE * interface)
{
  interface->name = VF_MODNAME;
  interface->method_count = sizeof(vf::methods) / sizeof(PLUGIN_METHOD);
  interface->methods = vf::methods;
  interface->ctors_count = sizeof(vf::ctors) / sizeof(PLUGIN_CTOR);
  interface->ctors = vf::ctors;
}

void * VFPlugin::createObject(int ctor_id, bloc::Context& ctx, const std::vector<bloc::Expression*>& args)
{
  long tag = 0;
  if (ctor_id == 1)
  {
    bloc::Value& a0 = args[0]->value(ctx);
    if (!a0.isNull())
      tag = (long) *a0.integer();
  }
  vf::Object * o = new vf::Object();
  o->magic = vf::LIVE;
  o->tag = tag;
  o->state = 0;
  o->oid = simvf_created(VF_MODNUM, &ctx, tag);
  return o;
}

void VFPlugin::destroyObject(void * object)
{
  vf::Object * o = static_cast<vf::Object*>(object);
  int live = (o->magic == vf::LIVE);
  simvf_destroyed(VF_MODNUM, o->oid, live);
  if (live)
  {
    o->magic = vf::DEAD;
    delete o;
  }
}

bloc::Value * VFPlugin::executeMethod(
          bloc::Complex& object_this,
          int method_id,
          bloc::Context& ctx,
          const std::vector<bloc::Expression*>& args)
{
  vf::Object * o = static_cast<vf::Object*>(object_this.instance());
  int live = (o->magic == vf::LIVE);
  switch (method_id)
  {
  case vf::Pt:
  case vf::Pb:
  case vf::Ps:
  case vf::Pn:
  case vf::Px:
  {
    bloc::Value& a0 = args[0]->value(ctx);
    bloc::Value& a1 = args[1]->value(ctx);
    std::string d = vf::dump(a0) + "," + vf::dump(a1);
    simvf_method(VF_MODNUM, o->oid, live, method_id, d.c_str());
    vf::point(ctx, a0);
    /* return a copy of the second argument */
    return new bloc::Value(a1.clone());
  }
  case vf::Id:
    simvf_method(VF_MODNUM, o->oid, live, method_id, "");
    return new bloc::Value(bloc::Integer(o->oid));
  case vf::Tag:
    simvf_method(VF_MODNUM, o->oid, live, method_id, "");
    return new bloc::Value(bloc::Integer(o->tag));
  case vf::Get:
    simvf_method(VF_MODNUM, o->oid, live, method_id, "");
    return new bloc::Value(bloc::Integer(o->state));
  case vf::Set:
  {
    bloc::Value& a0 = args[0]->value(ctx);
    simvf_method(VF_MODNUM, o->oid, live, method_id, vf::dump(a0).c_str());
    if (!a0.isNull())
      o->state = (long) *a0.integer();
    return new bloc::Value(new bloc::Complex(object_this));
  }
  case vf::Me:
    simvf_method(VF_MODNUM, o->oid, live, method_id, "");
    return new bloc::Value(new bloc::Complex(object_this));
  case vf::Echo:
  {
    bloc::Value& a0 = args[0]->value(ctx);
    simvf_method(VF_MODNUM, o->oid, live, method_id, vf::dump(a0).c_str());
    return new bloc::Value(a0.clone());
  }
  case vf::Sum:
  {
    bloc::Value& a0 = args[0]->value(ctx);
    bloc::Value& a1 = args[1]->value(ctx);
    std::string d = vf::dump(a0) + "," + vf::dump(a1);
    simvf_method(VF_MODNUM, o->oid, live, method_id, d.c_str());
    if (a0.isNull() || a1.isNull())
      return new bloc::Value(bloc::Value::type_integer);
    return new bloc::Value(bloc::Integer((bloc::Integer)((uint64_t) *a0.integer() + (uint64_t) *a1.integer())));
  }
  case vf::Yield:
  {
    bloc::Value& a0 = args[0]->value(ctx);
    simvf_method(VF_MODNUM, o->oid, live, method_id, vf::dump(a0).c_str());
    simvf_yield(a0.isNull() ? -1 : (long) *a0.integer());
    return new bloc::Value(a0.clone());
  }
  case vf::Out:
  {
    bloc::Value& a0 = args[0]->value(ctx);
    std::string d = vf::dump(a0);
    simvf_method(VF_MODNUM, o->oid, live, method_id, d.c_str());
    bloc::Value * ret = new bloc::Value(a0.clone());
    if (args[0]->isVarName())
      ctx.storeVariable(args[0]->symbolId(), bloc::Value(bloc::Integer(o->state)));
    return ret;
  }
  default:
    break;
  }
  return nullptr;
}

} /* namespace plugin */
} /* namespace bloc */
