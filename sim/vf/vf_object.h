// Object layout of the vf/vg verification module (shared with the dump oracle).
#pragma once
namespace bloc { namespace plugin { namespace vf {
static const unsigned LIVE = 0x600D0B1Eu;
static const unsigned DEAD = 0xDEADDEADu;
struct Object { unsigned magic; long oid; long tag; long state; };
} } }
