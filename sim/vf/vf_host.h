// Interface between the verification plugin (libbloc_vf / libbloc_vg) and the
// simulator. The plugin resolves these symbols from the executable (-rdynamic).
#pragma once
#ifdef __cplusplus
extern "C" {
#endif

typedef struct {
  int fire;        /* non-zero: throw */
  int code;        /* bloc::EXC_RT number */
  char arg[64];    /* argument of the error (user name / text) */
} SimVfFault;

/* a fault point is visited; the simulator decides per plan */
void simvf_point(int module, long id, void* ctx, SimVfFault* out);
/* object lifecycle; returns the ledger id of the new object */
long simvf_created(int module, void* ctx, long tag);
void simvf_destroyed(int module, long oid, int was_live);
/* a method runs on an object: live flag and argument dump as the plugin saw them */
void simvf_method(int module, long oid, int was_live, int method, const char* argdump);
/* explicit yield point */
void simvf_yield(long id);

#ifdef __cplusplus
}
#endif
