#pragma once
#include <blocc/plugin.h>

namespace bloc
{
namespace plugin
{

class VFPlugin final : public PluginBase
{
public:
  VFPlugin() = default;
  void declareInterface(PLUGIN_INTERFACE * interface) override;
  void * createObject(int ctor_id, bloc::Context& ctx, const std::vector<bloc::Expression*>& args) override;
  void destroyObject(void * object) override;
  Value * executeMethod(bloc::Complex& object_this, int method_id, bloc::Context& ctx,
                        const std::vector<bloc::Expression*>& args) override;
};

}
}
