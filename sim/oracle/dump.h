// Deep dump of a BLOC context (variables, symbol flags, functions) and residue invariants.
#pragma once
#include <blocc/context.h>
#include <blocc/value.h>
#include <string>
#include <vector>
#include <map>

namespace sim {

struct DumpOpts {
  bool flags = true;       // symbol safety/locked flags
  bool symtype = true;     // symbol (compile-time) type next to the value type
  bool lvalue = false;     // LVALUE flag of stored values and elements
  bool objects_by_id = true; // vf/vg objects printed as obj#<ledger id>, others as obj@<type>
};

std::string type_str(const bloc::Type& t);
std::string dump_value(const bloc::Value& v, const DumpOpts& o = DumpOpts());
// one line per symbol slot: "NAME sym=<type> flags=.. val=<deep value>"
std::vector<std::string> dump_symbols(bloc::Context& ctx, const DumpOpts& o = DumpOpts());
std::string dump_context(bloc::Context& ctx, const DumpOpts& o = DumpOpts());
// function table: name/arity/param types/return type/body text/cache size
std::vector<std::string> dump_functors(bloc::Context& ctx, bool with_cache = true, bool with_body = true);

// Residue invariants at a quiescent point; returns "" when clean, else the first broken invariant.
// `allow_dollar`: '$'-named symbols legitimately keep their safety flag.
std::string check_residue(bloc::Context& ctx, bool check_flags = true);

// every element of every table has the table's element type; tuples match their declaration
std::string check_uniform(const bloc::Value& v);

} // namespace sim
