// Shared harness of the reference-interpreter based properties (C02 C05 C06 C07 C08 C09):
// runs a generated program in the implementation under a fault plan and compares output, outcome,
// final variable store and residue invariants with the reference interpreter R.
#pragma once
#include "core/profile.h"
#include "core/util.h"
#include "gen/gen.h"
#include "oracle/dump.h"
#include "oracle/world.h"
#include "oracle/stepguard.h"
#include "ref/interp.h"
#include "seams/capture.h"
#include "seams/vfhost.h"
#include <blocc/bloc_capi.h>

namespace sim {

struct ImplRun {
  std::string outcome, errtext, out; std::map<std::string, std::string> store; std::string residue;
  long steps = 0; bool budget_exceeded = false; bool parsed = true; std::string parse_error;
  std::vector<size_t> rejected_units;   // indices of units the compiler refused
  std::string constants;    // set when the text unparsed from an executable differs before and after its run
  std::string uniform;      // first container uniformity violation seen at any statement boundary
  std::string constraint;   // first violated type constraint ('$' names, loop iterators) seen at any step
};

// "A '$' variable and a for/forall iterator inside its loop keep their major type for as long as the constraint is
// active": from the step a constraint is seen active on a symbol, the major type of its (dereferenced, non-null) value
// must not change until the constraint is released.
struct ConstraintMonitor {
  std::map<std::pair<const void*, unsigned>, int> held;   // (context, symbol id) -> major type while constrained
  std::string violation;
  void step(bloc::Context& c) {
    size_t cnt = c.verifSymbolCount();
    for (size_t i = 0; i < cnt; ++i) {
      bloc::Symbol& s = c.getSymbol((unsigned)i); auto key = std::make_pair((const void*)&c, (unsigned)i);
      if (!s.safety()) { held.erase(key); continue; }
      bloc::Value& v = c.loadVariable((unsigned)i).deref_value();
      int major = (int)v.type().major() * 1000 + (int)v.type().level(); if (v.type().major() == bloc::Type::NO_TYPE) continue;   // major type and table dimension
      auto it = held.find(key);
      if (it == held.end()) held[key] = major;
      else if (it->second != major && violation.empty()) violation = s.name() + ": constrained while holding " + std::string(bloc::Type::typeName((bloc::Type::TypeMajor)(it->second / 1000))) + " of dimension " + std::to_string(it->second % 1000) + " but now holds " + type_str(v.type());
    }
  }
};

inline std::vector<FaultSpec> faults_of(const json& plan) {
  std::vector<FaultSpec> fs;
  for (auto& f : plan.value("faults", json::array())) { FaultSpec s; s.task = -1; s.point = f.value("point", 0L); s.visit = f.value("visit", 1L); s.code = f.value("code", 21); s.arg = f.value("arg", ""); s.kind = f.value("kind", "rt"); fs.push_back(s); }
  return fs;
}

inline json random_faults(Rng& fr, int fault_points, double p_any = 0.6, int maxn = 2) {
  json faults = json::array();
  if (fault_points > 0 && fr.chance(p_any)) {
    static const struct { int code; const char* arg; const char* kind; } K[] = {{21, "", "rt_catchable"}, {23, "", "rt_catchable"}, {1, "MYERR", "rt_catchable"}, {1, "E_TWO", "rt_catchable"}, {22, "7", "rt_fatal"}, {25, "integer", "rt_fatal"}, {33, "X", "rt_fatal"}};
    int nf = (int)fr.range(1, maxn);
    for (int i = 0; i < nf; ++i) { auto& f = K[fr.weighted({3, 3, 3, 1, 1, 1, 1})]; faults.push_back(json{{"point", fr.range(1, fault_points)}, {"visit", fr.range(1, 3)}, {"code", f.code}, {"arg", f.arg}, {"kind", f.kind}}); }
  }
  return faults;
}

// store of a context in R's format: NAME -> deep value (flags and symbol types off, objects anonymous)
inline std::map<std::string, std::string> store_of(bloc::Context& ctx) {
  DumpOpts o; o.flags = false; o.symtype = false; o.objects_by_id = false;
  std::map<std::string, std::string> m;
  for (auto& l : dump_symbols(ctx, o)) { size_t sp = l.find(" val="); m[l.substr(0, sp)] = l.substr(sp + 5); }
  return m;
}

// units: source texts compiled and run one after another in the same context (one unit = whole program)
inline ImplRun impl_run(const std::vector<std::string>& units, const std::vector<FaultSpec>& faults, long budget, long cancel_at = 0, bool per_step_checks = false) {
  ImplRun r; VfHost& host = VfHost::get(); host.reset(); host.arm(faults);
  Capture cap;
  {
    bloc::Context ctx(cap.fd(), cap.fd()); ctx.trusted(true);
    std::vector<bloc::Executable*> exes;
    StepGuard g(budget); long n = 0; ConstraintMonitor cm;
    g.extra = [&](bloc::Context& c, const bloc::Statement*) {
      ++n;
      if (cancel_at > 0 && n == cancel_at) bloc_break(reinterpret_cast<bloc_context*>(&ctx));
      if (per_step_checks) {
        cm.step(c); if (r.constraint.empty()) r.constraint = cm.violation;
        size_t cnt = c.verifSymbolCount();
        if (r.uniform.empty() && &c == &ctx) { for (size_t i = 0; i < cnt && r.uniform.empty(); ++i) { std::string u = check_uniform(c.loadVariable((unsigned)i)); if (!u.empty()) r.uniform = c.getSymbol((unsigned)i).name() + u; } }
      }
    };
    r.outcome.clear(); bool first = true; size_t ui = 0;
    for (auto& text : units) {
      size_t this_unit = ui++;
      // the host reports an error of a unit and goes on with the next unit in the same context
      std::string oc = "ok";
      bloc::Executable* exe = nullptr;
      Outcome o = parse_text(ctx, text, exe);
      if (!o.ok()) { r.parsed = false; r.parse_error = o.str() + " " + o.text; oc = o.str(); r.rejected_units.push_back(this_unit); }
      else {
        exes.push_back(exe);
        ctx.returnCondition(false);
        auto unparse = [&]() { char* buf = nullptr; size_t sz = 0; FILE* m = open_memstream(&buf, &sz); exe->unparse(m); fclose(m); std::string t(buf, sz); free(buf); return t; };
        std::string before = unparse();
        Outcome ro = run_exe(exe);
        if (!ro.ok()) { oc = ro.str(); r.errtext = ro.text; }
        // running a program never changes the constants of its text
        if (r.constants.empty()) { std::string after = unparse(); if (after != before) { size_t i = 0; while (i < after.size() && i < before.size() && after[i] == before[i]) ++i; size_t b = i > 40 ? i - 40 : 0; r.constants = "'" + printable(before.substr(b, 90), 130) + "' became '" + printable(after.substr(b, 90), 130) + "'"; } }
        ctx.returnCondition(false);
        delete ctx.dropReturned();
      }
      r.outcome += (first ? "" : "|") + oc; first = false;
    }
    r.steps = g.steps; r.budget_exceeded = g.exceeded;
    ctx.returnCondition(false);
    delete ctx.dropReturned();
    if (ctx.ctxout()) fflush(ctx.ctxout());
    r.store = store_of(ctx);
    r.residue = check_residue(ctx);
    if (r.uniform.empty()) { size_t cnt = ctx.verifSymbolCount(); for (size_t i = 0; i < cnt && r.uniform.empty(); ++i) { std::string u = check_uniform(ctx.loadVariable((unsigned)i)); if (!u.empty()) r.uniform = ctx.getSymbol((unsigned)i).name() + u; } }
    for (auto e : exes) delete e;
  }
  r.out = cap.read_all();
  return r;
}

// first difference between the implementation and the model ("" when they agree)
inline std::string normalise_outcome(std::string o) { size_t p; while ((p = o.find("parse_error(")) != std::string::npos) { size_t e = o.find(')', p); o.replace(p, e - p + 1, "parse_error"); } return o; }
inline std::string compare_with_model(const ImplRun& im, const RResult& rr, bool compare_store = true) {
  if (normalise_outcome(im.outcome) != normalise_outcome(rr.outcome)) return "outcome " + im.outcome + " (" + im.errtext + ") vs model " + rr.outcome;
  if (im.out != rr.out) {
    size_t i = 0; while (i < im.out.size() && i < rr.out.size() && im.out[i] == rr.out[i]) ++i;
    size_t b = i > 30 ? i - 30 : 0;
    return "output differs at byte " + std::to_string(i) + ": '" + printable(im.out.substr(b, 80), 120) + "' vs model '" + printable(rr.out.substr(b, 80), 120) + "'";
  }
  if (compare_store) {
    for (auto& kv : rr.store) { auto it = im.store.find(kv.first); if (it == im.store.end()) return "variable " + kv.first + " missing"; if (it->second != kv.second) return "variable " + kv.first + " = " + printable(it->second, 100) + " vs model " + printable(kv.second, 100); }
    for (auto& kv : im.store) if (!rr.store.count(kv.first) && kv.second.compare(0, 5, "null<") != 0) return "variable " + kv.first + " = " + printable(kv.second, 100) + " but the model never assigned it";
  }
  return "";
}

inline void fill_texts(json& plan) {
  const json& ast = plan["ast"];
  plan["text"] = enc(print_program(ast));
}

} // namespace sim
