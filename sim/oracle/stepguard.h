// Statement-step budget (bounded liveness is a step count, never a wall-clock timeout).
#pragma once
#include "seams/hooks.h"

namespace sim {

struct StepGuard {
  Hooks hooks;
  long steps = 0; long budget; bool exceeded = false;
  std::function<void(bloc::Context&, const bloc::Statement*)> extra;
  explicit StepGuard(long b) : budget(b) {
    hooks.on_statement = [this](bloc::Context& ctx, const bloc::Statement* s) {
      ++steps;
      if (steps > budget) { exceeded = true; const_cast<bloc::Context*>(ctx.verifRoot())->returnCondition(true); ctx.returnCondition(true); }
      if (extra) extra(ctx, s);
    };
    hooks.install();
  }
};

} // namespace sim
