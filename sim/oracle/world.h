// Helpers to drive the library the way an embedder does: parse, run, classify the outcome.
#pragma once
#include <blocc/context.h>
#include <blocc/parser.h>
#include <blocc/executable.h>
#include <blocc/string_reader.h>
#include <blocc/exception_parse.h>
#include <blocc/exception_runtime.h>
#include <string>
#include <typeinfo>
#include <vector>

namespace sim {

struct Outcome {
  enum Kind { OK = 0, PARSE_ERROR, RUNTIME_ERROR, FOREIGN } kind = OK;
  int code = 0;             // EXC_PARSE / EXC_RT number
  std::string text;         // what()
  std::string str() const {
    switch (kind) {
    case OK: return "ok";
    case PARSE_ERROR: return "parse_error(" + std::to_string(code) + ")";
    case RUNTIME_ERROR: return "runtime_error(" + std::to_string(code) + (code == bloc::EXC_RT_USER_S ? ":" + text : "") + ")";
    default: return "foreign_exception(" + text + ")";
    }
  }
  bool ok() const { return kind == OK; }
};

// parse a whole text into an executable; exe is null unless OK
inline Outcome parse_text(bloc::Context& ctx, bloc::Parser::StreamReader& rd, bloc::Executable*& exe) {
  Outcome o; exe = nullptr;
  try { exe = bloc::Parser::parse(ctx, rd); if (!exe) { o.kind = Outcome::FOREIGN; o.text = "parse returned null"; } }
  catch (bloc::ParseError& pe) { o.kind = Outcome::PARSE_ERROR; o.code = pe.no; o.text = pe.what(); }
  catch (bloc::RuntimeError& re) { o.kind = Outcome::FOREIGN; o.text = std::string("RuntimeError escaped from parse: ") + re.what(); }
  catch (std::exception& e) { o.kind = Outcome::FOREIGN; o.text = std::string(typeid(e).name()) + ": " + e.what(); }
  catch (...) { o.kind = Outcome::FOREIGN; o.text = "unknown exception"; }
  return o;
}
inline Outcome parse_text(bloc::Context& ctx, const std::string& text, bloc::Executable*& exe) {
  bloc::StringReader rd(text); return parse_text(ctx, rd, exe);
}

inline Outcome run_exe(bloc::Executable* exe) {
  Outcome o;
  try { exe->run(); }
  catch (bloc::RuntimeError& re) { o.kind = Outcome::RUNTIME_ERROR; o.code = re.no; o.text = re.what(); }
  catch (bloc::ParseError& pe) { o.kind = Outcome::FOREIGN; o.text = std::string("ParseError escaped from run: ") + pe.what(); }
  catch (std::exception& e) { o.kind = Outcome::FOREIGN; o.text = std::string(typeid(e).name()) + ": " + e.what(); }
  catch (...) { o.kind = Outcome::FOREIGN; o.text = "unknown exception"; }
  return o;
}
inline Outcome run_exe(bloc::Context& ctx, bloc::Executable* exe) {
  Outcome o;
  try { bloc::Executable::run(ctx, exe->statements()); }
  catch (bloc::RuntimeError& re) { o.kind = Outcome::RUNTIME_ERROR; o.code = re.no; o.text = re.what(); }
  catch (bloc::ParseError& pe) { o.kind = Outcome::FOREIGN; o.text = std::string("ParseError escaped from run: ") + pe.what(); }
  catch (std::exception& e) { o.kind = Outcome::FOREIGN; o.text = std::string(typeid(e).name()) + ": " + e.what(); }
  catch (...) { o.kind = Outcome::FOREIGN; o.text = "unknown exception"; }
  return o;
}

} // namespace sim

// Statement-at-a-time driver modelled on the interactive loop of apps/cli_parser.cpp:
// parse one statement, execute its chain, repeat. Stops at the first parse error (after
// Parser::clear(), as the CLI does) or at the first runtime error.
namespace sim {
struct InteractiveRun {
  int executed = 0;            // top-level statements parsed and executed
  Outcome parse_error;         // first parse error (kind OK if none)
  Outcome runtime_error;       // first runtime error (kind OK if none)
  std::vector<const bloc::Statement*> kept;
  ~InteractiveRun() { for (auto s : kept) delete s; }
};
inline void interactive_feed(bloc::Context& ctx, bloc::Parser::StreamReader& rd, InteractiveRun& r, bool cleanup_on_runtime_error = true) {
  bloc::Parser* p = bloc::Parser::createInteractiveParser(ctx, rd);
  if (!p) return;
  while (p->state() != bloc::Parser::Aborted) {
    const bloc::Statement* s = nullptr;
    try { s = p->parseStatement(); }
    catch (bloc::ParseError& pe) {
      if (pe.no == bloc::EXC_PARSE_EOF) break;
      r.parse_error.kind = Outcome::PARSE_ERROR; r.parse_error.code = pe.no; r.parse_error.text = pe.what();
      p->clear(); break;
    }
    catch (std::exception& e) { r.parse_error.kind = Outcome::FOREIGN; r.parse_error.text = std::string(typeid(e).name()) + ": " + e.what(); break; }
    if (!s) continue;
    r.kept.push_back(s);
    const bloc::Statement* n = s; bool failed = false;
    while (n) {
      try { n = n->execute(ctx); }
      catch (bloc::RuntimeError& re) {
        r.runtime_error.kind = Outcome::RUNTIME_ERROR; r.runtime_error.code = re.no; r.runtime_error.text = re.what();
        if (cleanup_on_runtime_error) ctx.onRuntimeError(); else ctx.purgeWorkingMemory();
        failed = true; break;
      }
      catch (std::exception& e) { r.runtime_error.kind = Outcome::FOREIGN; r.runtime_error.text = std::string(typeid(e).name()) + ": " + e.what(); failed = true; break; }
    }
    if (failed) break;
    ++r.executed;
    if (ctx.returnCondition()) { ctx.returnCondition(false); delete ctx.dropReturned(); }
    try { if (p->front() && p->front()->code == bloc::Parser::NewLine) p->pop(); } catch (bloc::ParseError&) { break; }
  }
  delete p;
}
} // namespace sim
