// Helpers to drive the library the way an embedder does: parse, run, classify the outcome.
#pragma once
#include <blocc/context.h>
#include <blocc/parser.h>
#include <blocc/executable.h>
#include <blocc/string_reader.h>
#include <blocc/exception_parse.h>
#include <blocc/exception_runtime.h>
#include <string>
#include <typeinfo>

namespace sim {

struct Outcome {
  enum Kind { OK = 0, PARSE_ERROR, RUNTIME_ERROR, FOREIGN } kind = OK;
  int code = 0;             // EXC_PARSE / EXC_RT number
  std::string text;         // what()
  std::string str() const {
    switch (kind) {
    case OK: return "ok";
    case PARSE_ERROR: return "parse_error(" + std::to_string(code) + ")";
    case RUNTIME_ERROR: return "runtime_error(" + std::to_string(code) + (code == bloc::EXC_RT_USER_S ? ":" + text : "") + ")";
    default: return "foreign_exception(" + text + ")";
    }
  }
  bool ok() const { return kind == OK; }
};

// parse a whole text into an executable; exe is null unless OK
inline Outcome parse_text(bloc::Context& ctx, bloc::Parser::StreamReader& rd, bloc::Executable*& exe) {
  Outcome o; exe = nullptr;
  try { exe = bloc::Parser::parse(ctx, rd); if (!exe) { o.kind = Outcome::FOREIGN; o.text = "parse returned null"; } }
  catch (bloc::ParseError& pe) { o.kind = Outcome::PARSE_ERROR; o.code = pe.no; o.text = pe.what(); }
  catch (bloc::RuntimeError& re) { o.kind = Outcome::FOREIGN; o.text = std::string("RuntimeError escaped from parse: ") + re.what(); }
  catch (std::exception& e) { o.kind = Outcome::FOREIGN; o.text = std::string(typeid(e).name()) + ": " + e.what(); }
  catch (...) { o.kind = Outcome::FOREIGN; o.text = "unknown exception"; }
  return o;
}
inline Outcome parse_text(bloc::Context& ctx, const std::string& text, bloc::Executable*& exe) {
  bloc::StringReader rd(text); return parse_text(ctx, rd, exe);
}

inline Outcome run_exe(bloc::Executable* exe) {
  Outcome o;
  try { exe->run(); }
  catch (bloc::RuntimeError& re) { o.kind = Outcome::RUNTIME_ERROR; o.code = re.no; o.text = re.what(); }
  catch (bloc::ParseError& pe) { o.kind = Outcome::FOREIGN; o.text = std::string("ParseError escaped from run: ") + pe.what(); }
  catch (std::exception& e) { o.kind = Outcome::FOREIGN; o.text = std::string(typeid(e).name()) + ": " + e.what(); }
  catch (...) { o.kind = Outcome::FOREIGN; o.text = "unknown exception"; }
  return o;
}
inline Outcome run_exe(bloc::Context& ctx, bloc::Executable* exe) {
  Outcome o;
  try { bloc::Executable::run(ctx, exe->statements()); }
  catch (bloc::RuntimeError& re) { o.kind = Outcome::RUNTIME_ERROR; o.code = re.no; o.text = re.what(); }
  catch (bloc::ParseError& pe) { o.kind = Outcome::FOREIGN; o.text = std::string("ParseError escaped from run: ") + pe.what(); }
  catch (std::exception& e) { o.kind = Outcome::FOREIGN; o.text = std::string(typeid(e).name()) + ": " + e.what(); }
  catch (...) { o.kind = Outcome::FOREIGN; o.text = "unknown exception"; }
  return o;
}

} // namespace sim
