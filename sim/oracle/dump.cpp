#include "dump.h"
#include "vf/vf_object.h"
#include <blocc/collection.h>
#include <blocc/tuple.h>
#include <blocc/complex.h>
#include <blocc/functor_manager.h>
#include <blocc/plugin_manager.h>
#include <blocc/statement.h>
#include <cstdio>
#include <cstring>

namespace sim {

std::string type_str(const bloc::Type& t) {
  std::string s = bloc::Type::typeName(t.major());
  if (t.minor()) s += "/" + std::to_string(t.minor());
  if (t.level()) s = std::string(t.level(), '[') + s + std::string(t.level(), ']');
  return s;
}

static std::string decl_str(const bloc::TupleDecl::Decl& d) {
  std::string s = "{";
  for (size_t i = 0; i < d.size(); ++i) { if (i) s += ","; s += type_str(d[i]); }
  return s + "}";
}

static std::string hexs(const char* p, size_t n) { static const char* h = "0123456789abcdef"; std::string s; for (size_t i = 0; i < n; ++i) { s.push_back(h[(unsigned char)p[i] >> 4]); s.push_back(h[p[i] & 15]); } return s; }

std::string dump_value(const bloc::Value& cv, const DumpOpts& o) {
  bloc::Value& v = const_cast<bloc::Value&>(cv);
  std::string pre = o.lvalue ? (v.lvalue() ? "L~" : "t~") : "";
  const bloc::Type& t = v.type();
  if (v.isNull()) return pre + "null<" + type_str(t) + ">";
  char buf[64];
  if (t.level() > 0) {
    bloc::Collection* c = v.collection();
    std::string s = pre + "[" + type_str(c->table_type());
    if (c->table_type().major() == bloc::Type::ROWTYPE) s += decl_str(c->table_decl());
    s += "|";
    for (size_t i = 0; i < c->size(); ++i) { if (i) s += ","; s += dump_value((*c)[i], o); }
    return s + "]";
  }
  switch (t.major()) {
  case bloc::Type::NO_TYPE: return pre + "undef!notnull";
  case bloc::Type::BOOLEAN: return pre + (*v.boolean() ? "B:T" : "B:F");
  case bloc::Type::INTEGER: snprintf(buf, sizeof buf, "I:%lld", (long long)*v.integer()); return pre + buf;
  case bloc::Type::NUMERIC: snprintf(buf, sizeof buf, "N:%.17g", *v.numeric()); return pre + buf;
  case bloc::Type::IMAGINARY: snprintf(buf, sizeof buf, "C:%.17g,%.17g", v.imaginary()->a, v.imaginary()->b); return pre + buf;
  case bloc::Type::LITERAL: return pre + "L:\"" + *v.literal() + "\"";
  case bloc::Type::TABCHAR: return pre + "X:" + hexs(v.tabchar()->data(), v.tabchar()->size());
  case bloc::Type::COMPLEX: {
    bloc::Complex* c = v.complex();
    const char* name = bloc::PluginManager::instance().plugged(c->typeId()).interface.name;
    if (o.objects_by_id && (strcmp(name, "vf") == 0 || strcmp(name, "vg") == 0)) {
      const bloc::plugin::vf::Object* ob = static_cast<const bloc::plugin::vf::Object*>(c->instance());
      return pre + "O:" + name + "#" + std::to_string(ob->oid) + (ob->magic == bloc::plugin::vf::LIVE ? "" : "!DEAD");
    }
    return pre + "O:" + name;
  }
  case bloc::Type::ROWTYPE: {
    bloc::Tuple* tp = v.tuple();
    std::string s = pre + "T" + decl_str(tp->tuple_decl()) + "(";
    for (size_t i = 0; i < tp->size(); ++i) { if (i) s += ","; s += dump_value((*tp)[i], o); }
    return s + ")";
  }
  case bloc::Type::POINTER: return pre + "P->" + dump_value(*v.value(), o);
  }
  return pre + "?";
}

std::vector<std::string> dump_symbols(bloc::Context& ctx, const DumpOpts& o) {
  std::vector<std::string> out;
  size_t n = ctx.verifSymbolCount();
  for (size_t i = 0; i < n; ++i) {
    bloc::Symbol& s = ctx.getSymbol((unsigned)i);
    std::string line = s.name();
    if (o.symtype) { line += " sym=" + type_str(s); if (s.major() == bloc::Type::ROWTYPE) line += decl_str(s.tuple_decl()); }
    if (o.flags) line += std::string(" flags=") + (s.locked() ? "K" : "-") + (s.safety() ? "S" : "-");
    line += " val=" + dump_value(ctx.loadVariable((unsigned)i), o);
    out.push_back(line);
  }
  return out;
}

std::string dump_context(bloc::Context& ctx, const DumpOpts& o) {
  std::string s; for (auto& l : dump_symbols(ctx, o)) { s += l; s += "\n"; } return s;
}

std::vector<std::string> dump_functors(bloc::Context& ctx, bool with_cache, bool with_body) {
  std::vector<std::string> out;
  for (const bloc::FunctorManager::Entry& e : ctx.functorManager().declarations()) {
    std::string line;
    if (!e.functor) { out.push_back("<null functor>"); continue; }
    line = e.functor->name + "(";
    bool first = true;
    for (const bloc::Symbol& p : e.functor->params) { if (!first) line += ","; first = false; line += p.name() + ":" + type_str(p); }
    line += ")->" + type_str(e.functor->returns);
    if (with_body) {
      if (!e.functor->body || !e.functor->ctx) line += " body=<MISSING>";
      else {
        char* buf = nullptr; size_t sz = 0; FILE* m = open_memstream(&buf, &sz);
        e.functor->body->unparse(*e.functor->ctx, m); fclose(m);
        line += " body=" + std::string(buf, sz); free(buf);
      }
    }
    if (with_cache) { size_t k = 0; for (auto it = e.ctx_cache.begin(); it != e.ctx_cache.end(); ++it) ++k; line += " cache=" + std::to_string(k); }
    out.push_back(line);
  }
  return out;
}

std::string check_residue(bloc::Context& ctx, bool check_flags) {
  if (ctx.verifControlDepth() != 0) return "loop-control stack depth " + std::to_string(ctx.verifControlDepth());
  if (ctx.verifExecDepth() != 0) return "exec-level stack depth " + std::to_string(ctx.verifExecDepth());
  if (ctx.verifBackedSymbolCount() != 0) return "backed-up symbols left: " + std::to_string(ctx.verifBackedSymbolCount());
  if (ctx.parsing()) return "context left in parsing mode";
  if (ctx.breakCondition()) return "pending break";
  if (ctx.continueCondition()) return "pending continue";
  if (check_flags) {
    size_t n = ctx.verifSymbolCount();
    for (size_t i = 0; i < n; ++i) {
      bloc::Symbol& s = ctx.getSymbol((unsigned)i);
      if (s.locked()) return "symbol " + s.name() + " left read-only (locked)";
      if (s.safety() && s.name().front() != bloc::Symbol::SAFETY_QUALIFIER) return "symbol " + s.name() + " left type-constrained (safety)";
    }
  }
  return "";
}

static std::string uniform_rec(bloc::Value& v, const std::string& path) {
  if (v.isNull()) return "";
  const bloc::Type& t = v.type();
  if (t.level() > 0) {
    bloc::Collection* c = v.collection();
    if (c->table_type() != t) return path + ": value type " + type_str(t) + " != table type " + type_str(c->table_type());
    bloc::Type et = c->table_type().levelDown();
    for (size_t i = 0; i < c->size(); ++i) {
      bloc::Value& e = (*c)[i];
      if (e.type() != et) return path + "[" + std::to_string(i) + "]: element type " + type_str(e.type()) + " != " + type_str(et);
      if (et.major() == bloc::Type::ROWTYPE && et.level() == 0 && !e.isNull()) {
        const bloc::TupleDecl::Decl& d = e.tuple()->tuple_decl();
        if (d.size() != c->table_decl().size()) return path + "[" + std::to_string(i) + "]: tuple arity differs from table declaration";
        for (size_t k = 0; k < d.size(); ++k) if (d[k] != c->table_decl()[k]) return path + "[" + std::to_string(i) + "]: tuple item type differs from table declaration";
      }
      std::string r = uniform_rec(e, path + "[" + std::to_string(i) + "]"); if (!r.empty()) return r;
    }
    return "";
  }
  if (t.major() == bloc::Type::ROWTYPE) {
    bloc::Tuple* tp = v.tuple();
    const bloc::TupleDecl::Decl& d = tp->tuple_decl();
    if (d.size() != tp->size()) return path + ": tuple size != declaration size";
    for (size_t k = 0; k < tp->size(); ++k) {
      bloc::Value& e = (*tp)[k];
      if (e.type() != d[k]) return path + "@" + std::to_string(k + 1) + ": item type " + type_str(e.type()) + " != declared " + type_str(d[k]);
    }
  }
  if (t.major() == bloc::Type::POINTER) return uniform_rec(*v.value(), path + "->");
  return "";
}

std::string check_uniform(const bloc::Value& v) { return uniform_rec(const_cast<bloc::Value&>(v), "$"); }

} // namespace sim
