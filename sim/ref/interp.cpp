#include "interp.h"
#include <algorithm>
#include <cstdio>
#include <functional>

namespace sim {

namespace {

struct RErr { int code; std::string name; };          // BLOC runtime error (class only)
struct Unsupported { std::string why; };
struct StepLimit {};

enum Flow { NORMAL, BREAK, CONTINUE, RETURN };

static const char* throwable_name(int code) { return code == 21 ? "OUT_OF_RANGE" : code == 23 ? "DIVIDE_BY_ZERO" : ""; }
static bool catchable(int code) { return code == 1 || code == 21 || code == 23; }

static std::string upper(std::string s) { for (auto& c : s) c = (char)toupper((unsigned char)c); return s; }

struct Ref { std::string table; long index; };        // forall iterator -> element of a table variable

struct Env {
  std::map<std::string, RVal> vars;
  std::map<std::string, Ref> refs;                   // names currently bound to a table element
  std::vector<std::string> busy_iters;               // iterators of running loops
  int depth = 0;                                     // recursion depth of this context
  int loops = 0;                                     // loops of this context that are running (break / continue outside any are no-ops)
  bool has_returned = false; RVal returned;
};

struct Interp {
  const RConfig& cfg; RResult& res;
  std::map<std::string, json> funcs;                 // "NAME/arity" -> func node
  std::map<long, long> visits; long next_obj = 0; std::map<long, long> obj_state;
  std::vector<RErr> error_stack;                     // error being handled (innermost last)
  Interp(const RConfig& c, RResult& r) : cfg(c), res(r) {}

  void step() { if (++res.steps > cfg.max_steps) throw StepLimit(); }

  // ---------------------------------------------------------------- values
  static std::string type_name(const RVal& v) {
    switch (v.t) { case RVal::Int: return "integer"; case RVal::Bool: return "boolean"; case RVal::Str: return "string"; case RVal::Dec: return "decimal"; case RVal::Obj: return "object"; case RVal::Tup: return "tuple"; case RVal::Tab: return "[" + v.elem + "]"; default: return v.elem.empty() ? "undefined" : v.elem; }
  }
  static std::string readable_literal(const std::string& s) {
    std::string b = "\"";
    for (char c : s) { switch (c) { case '\a': b += "\\a"; break; case '\b': b += "\\b"; break; case '\f': b += "\\f"; break; case '\n': b += "\\n"; break; case '\r': b += "\\r"; break; case '\t': b += "\\t"; break; case '\\': b += "\\\\"; break; case '"': b += "\\\""; break; default: b.push_back(c); } }
    return b + "\"";
  }
  static std::string fmt_dec(double d) { char b[32]; snprintf(b, sizeof b, "%.16g", d); return b; }
  std::string printable_of(const RVal& v, bool put) {
    switch (v.t) {
    case RVal::Null: if (v.elem.size() && v.elem[0] == '[') return put ? "" : v.elem; return put ? "" : "null";
    case RVal::Int: return std::to_string(v.i);
    case RVal::Bool: return v.b ? "TRUE" : "FALSE";
    case RVal::Str: return v.s;
    case RVal::Dec: return fmt_dec(v.d);
    case RVal::Tab: return put ? "" : "[" + v.elem + "][" + std::to_string(v.items.size()) + "]";
    case RVal::Tup: { if (put) return ""; std::string s; for (size_t i = 0; i < v.items.size(); ++i) { if (i) s += ", "; const RVal& it = v.items[i]; if (it.t == RVal::Str) s += readable_literal(it.s); else if (it.t == RVal::Null) s += "null"; else s += printable_of(it, false); } return s; }
    case RVal::Obj: throw Unsupported{"printing an object"};
    }
    return "";
  }

  // ---------------------------------------------------------------- variables
  RVal& lookup(Env& env, const std::string& n) {
    auto r = env.refs.find(n);
    if (r != env.refs.end()) { RVal& t = env.vars[r->second.table]; if (t.t != RVal::Tab || r->second.index < 0 || (size_t)r->second.index >= t.items.size()) throw Unsupported{"dangling iterator"}; return t.items[r->second.index]; }
    auto it = env.vars.find(n);
    if (it == env.vars.end()) {
      // a local variable of a function starts every call unset: it reads as null
      if (env.depth > 0) { static RVal unset = RVal::N("?"); unset = RVal::N("?"); return unset; }
      throw Unsupported{"read of unset variable " + n};
    }
    return it->second;
  }
  void assign(Env& env, const std::string& n, const RVal& v) {
    auto r = env.refs.find(n);
    if (r != env.refs.end()) { lookup(env, n) = v; return; }
    env.vars[n] = v;
  }

  // ---------------------------------------------------------------- expressions
  RVal eval(Env& env, const json& e) {
    const std::string k = e.value("k", "");
    if (k == "int") return RVal::I(e["v"].get<long long>());
    if (k == "bool") return RVal::B(e["v"].get<bool>());
    if (k == "str") return RVal::S(e["v"].get<std::string>());
    if (k == "dec") return RVal::D(e["v"].get<double>());
    if (k == "null") { std::string t = e.value("t", ""); return RVal::N(t == "int" ? "integer" : t == "bool" ? "boolean" : t == "str" ? "string" : t == "dec" ? "decimal" : "undefined"); }
    if (k == "var") return lookup(env, upper(e["n"].get<std::string>()));
    if (k == "un") {
      RVal a = eval(env, e["a"]); std::string op = e["op"].get<std::string>();
      if (op == "-") { need(a, RVal::Int, "unary minus"); return RVal::I(-a.i); }
      if (op == "not") { need(a, RVal::Bool, "not"); return RVal::B(!a.b); }
      throw Unsupported{"unary " + op};
    }
    if (k == "bin") {
      std::string op = e["op"].get<std::string>();
      if (op == "and" || op == "or") {
        RVal a = eval(env, e["a"]); need(a, RVal::Bool, op);
        if (op == "and" && !a.b) return RVal::B(false);
        if (op == "or" && a.b) return RVal::B(true);
        RVal b = eval(env, e["b"]); need(b, RVal::Bool, op); return RVal::B(b.b);
      }
      RVal a = eval(env, e["a"]); RVal b = eval(env, e["b"]);
      // string + null string: the implementation hands the string through; the generator never observes the result of such an expression, only its operands
      if (op == "+" && a.t == RVal::Str && b.t == RVal::Null && b.elem == "string") return a;
      if (op == "+" && b.t == RVal::Str && a.t == RVal::Null && a.elem == "string") return b;
      if (a.t == RVal::Str && b.t == RVal::Str) {
        if (op == "+") return RVal::S(a.s + b.s);
        if (op == "==") return RVal::B(a.s == b.s);
        if (op == "!=") return RVal::B(a.s != b.s);
        throw Unsupported{"string operator " + op};
      }
      // a null integer operand makes the result null (of integer type for arithmetic, boolean for relations)
      auto int_or_null = [](const RVal& v) { return v.t == RVal::Int || (v.t == RVal::Null && (v.elem == "integer" || v.elem == "undefined")); };
      if ((a.t == RVal::Null || b.t == RVal::Null) && int_or_null(a) && int_or_null(b)) {
        if (op == "+" || op == "-" || op == "*" || op == "/" || op == "%") return RVal::N("integer");
        if (op == "<" || op == "<=" || op == ">" || op == ">=" || op == "==" || op == "!=") return RVal::N("boolean");
      }
      need(a, RVal::Int, op); need(b, RVal::Int, op);
      if (op == "+") return RVal::I(a.i + b.i);
      if (op == "-") return RVal::I(a.i - b.i);
      if (op == "*") return RVal::I(a.i * b.i);
      if (op == "/") { if (b.i == 0) throw RErr{23, ""}; return RVal::I(a.i / b.i); }
      if (op == "%") { if (b.i == 0) throw RErr{23, ""}; return RVal::I(a.i % b.i); }
      if (op == "<") return RVal::B(a.i < b.i); if (op == "<=") return RVal::B(a.i <= b.i);
      if (op == ">") return RVal::B(a.i > b.i); if (op == ">=") return RVal::B(a.i >= b.i);
      if (op == "==") return RVal::B(a.i == b.i); if (op == "!=") return RVal::B(a.i != b.i);
      throw Unsupported{"operator " + op};
    }
    if (k == "bi") {
      std::string f = e["f"].get<std::string>();
      if (f == "str") { RVal a = eval(env, e["args"][0]); if (a.t == RVal::Int) return RVal::S(std::to_string(a.i)); if (a.t == RVal::Str) return a; if (a.t == RVal::Bool) return RVal::S(a.b ? "TRUE" : "FALSE"); throw Unsupported{"str of that type"}; }
      if (f == "strlen") { RVal a = eval(env, e["args"][0]); need(a, RVal::Str, "strlen"); return RVal::I((long long)a.s.size()); }
      if (f == "isnull") { RVal a = eval(env, e["args"][0]); return RVal::B(a.t == RVal::Null); }
      if (f == "upper" || f == "lower" || f == "trim" || f == "ltrim" || f == "rtrim") {
        RVal a = eval(env, e["args"][0]); need(a, RVal::Str, f.c_str()); std::string t = a.s;
        auto ws = [](char c) { return c == ' ' || c == '\t' || c == '\n' || c == '\r' || c == '\f' || c == '\v'; };
        if (f == "upper") for (auto& c : t) { if (c >= 'a' && c <= 'z') c = (char)(c - 32); }
        if (f == "lower") for (auto& c : t) { if (c >= 'A' && c <= 'Z') c = (char)(c + 32); }
        if (f == "trim" || f == "ltrim") { size_t i = 0; while (i < t.size() && ws(t[i])) ++i; t.erase(0, i); }
        if (f == "trim" || f == "rtrim") { while (!t.empty() && ws(t.back())) t.pop_back(); }
        return RVal::S(t); }
      // a null second or third operand: the implementation hands the string through; the generator never observes the result of such a call, only its operands
      if ((f == "substr" || f == "lsubstr" || f == "rsubstr") && e["args"].size() >= 2) { bool nullarg = false; for (size_t i = 1; i < e["args"].size(); ++i) if (e["args"][i].value("k", "") == "null") nullarg = true; if (nullarg) { RVal a = eval(env, e["args"][0]); need(a, RVal::Str, "substr"); return a; } }
      if (f == "replace" && e["args"][1].value("k", "") == "null") { RVal a = eval(env, e["args"][0]); need(a, RVal::Str, "replace"); return a; }
      if (f == "substr") { RVal a = eval(env, e["args"][0]); need(a, RVal::Str, "substr"); RVal b = eval(env, e["args"][1]); need(b, RVal::Int, "substr"); long long c = (long long)a.s.size(), n = c;
        if (e["args"].size() > 2) { RVal x = eval(env, e["args"][2]); need(x, RVal::Int, "substr"); n = x.i; }
        if (b.i < 0 || b.i > 1000000 || n < 0 || n > 1000000) throw Unsupported{"substr outside the modelled range"};
        if (b.i >= c) return RVal::S(""); return RVal::S(a.s.substr((size_t)b.i, (size_t)std::min(n, c - b.i))); }
      if (f == "replace") { RVal a = eval(env, e["args"][0]); need(a, RVal::Str, "replace"); RVal b = eval(env, e["args"][1]); need(b, RVal::Str, "replace"); RVal c = eval(env, e["args"][2]); need(c, RVal::Str, "replace");
        if (b.s.empty()) return a; std::string t; size_t p = 0; while (true) { size_t q = a.s.find(b.s, p); if (q == std::string::npos) { t += a.s.substr(p); break; } t += a.s.substr(p, q - p) + c.s; p = q + b.s.size(); } return RVal::S(t); }
      throw Unsupported{"builtin " + f};
    }
    if (k == "item") { RVal o = eval(env, e["o"]); if (o.t != RVal::Tup) throw Unsupported{"item of non tuple"}; long i = e["i"].get<long>(); if (i < 1 || (size_t)i > o.items.size()) throw Unsupported{"item rank"}; return o.items[i - 1]; }
    if (k == "tab") { RVal n = eval(env, e["n"]); need(n, RVal::Int, "tab size"); if (n.i < 0) throw RErr{22, ""}; RVal first = eval(env, e["e"]); RVal t; t.t = RVal::Tab; t.elem = type_name(first); if (first.t == RVal::Null || first.t == RVal::Tup || first.t == RVal::Tab || first.t == RVal::Obj) throw Unsupported{"tab of that element"}; for (long long i = 0; i < n.i; ++i) t.items.push_back(i == 0 ? first : eval(env, e["e"])); return t; }
    if (k == "tup") { RVal t; t.t = RVal::Tup; for (auto& x : e["es"]) { RVal v = eval(env, x); if (v.t != RVal::Int && v.t != RVal::Str && v.t != RVal::Bool) throw Unsupported{"tuple item type"}; t.items.push_back(v); } return t; }
    if (k == "vfnew") { if (!e["tag"].is_null()) (void)eval(env, e["tag"]); RVal o; o.t = RVal::Obj; o.obj = ++next_obj; return o; }
    if (k == "pt") {
      RVal recv = eval(env, e["recv"]); if (recv.t != RVal::Obj) throw Unsupported{"fault point on a null object"};
      RVal v = eval(env, e["e"]);
      long id = e["id"].get<long>(); long n = ++visits[id];
      for (auto& f : cfg.faults) if (f.point == id && f.visit == n) { ++res.faults_fired; res.trace.push_back("fault@" + std::to_string(id)); throw RErr{f.code, f.code == 1 ? f.arg : ""}; }
      return v;
    }
    if (k == "vfm") {
      RVal recv = eval(env, e["recv"]); if (recv.t != RVal::Obj) throw Unsupported{"method on a null object"};
      std::string m = e["m"].get<std::string>(); std::vector<RVal> a; for (auto& x : e["args"]) a.push_back(eval(env, x));
      if (m == "sum") { need(a[0], RVal::Int, "sum"); need(a[1], RVal::Int, "sum"); return RVal::I(a[0].i + a[1].i); }
      if (m == "echo") { need(a[0], RVal::Str, "echo"); return a[0]; }
      if (m == "get") return RVal::I(obj_state[recv.obj]);
      if (m == "set") { need(a[0], RVal::Int, "set"); obj_state[recv.obj] = a[0].i; return recv; }
      if (m == "me") return recv;
      throw Unsupported{"vf method " + m};
    }
    if (k == "err") { long i = e["i"].get<long>(); if (error_stack.empty()) { if (i == 3) return RVal::I(0); return RVal::S(""); }   /* outside a handler the error tuple is ("", "", 0) */ const RErr& er = error_stack.back(); if (i == 1) return RVal::S(er.code == 1 ? er.name : throwable_name(er.code)); if (i == 3) return RVal::I(er.code); throw Unsupported{"error@2 (message text is not modelled)"}; }
    if (k == "mth") return method(env, e);
    if (k == "setitem") {
      // o.set@i(e): o must be a variable
      if (e["o"].value("k", "") != "var") throw Unsupported{"set@ on a temporary"};
      std::string n = upper(e["o"]["n"].get<std::string>()); RVal& o = lookup(env, n); if (o.t != RVal::Tup) throw Unsupported{"set@ on non tuple"};
      RVal v = eval(env, e["e"]); long i = e["i"].get<long>(); RVal& tgt = lookup(env, n);
      if (i < 1 || (size_t)i > tgt.items.size()) throw Unsupported{"set@ rank"};
      { RVal& cur = tgt.items[i - 1]; std::string ct = cur.t == RVal::Null ? cur.elem : type_name(cur);
        if (v.t == RVal::Null) { if (v.elem != ct && v.elem != "undefined") throw Unsupported{"set@ null of another type"}; v = RVal::N(ct); }
        else if (type_name(v) != ct) throw Unsupported{"set@ type"}; }
      tgt.items[i - 1] = v; return tgt;
    }
    if (k == "call") return call(env, e);
    throw Unsupported{"expression kind " + k};
  }

  static void need(const RVal& v, RVal::T t, const std::string& what) { if (v.t != t) throw Unsupported{what + ": operand outside the modelled types"}; }

  RVal method(Env& env, const json& e) {
    std::string m = e["m"].get<std::string>();
    bool isvar = e["o"].value("k", "") == "var";
    if (m == "count") { RVal o = eval(env, e["o"]); if (o.t == RVal::Tab || o.t == RVal::Tup) return RVal::I((long long)o.items.size()); if (o.t == RVal::Str) return RVal::I((long long)o.s.size()); throw Unsupported{"count"}; }
    if (m == "at") { RVal o = eval(env, e["o"]); RVal i = eval(env, e["args"][0]); if (o.t == RVal::Str) { if (i.t == RVal::Null) throw RErr{22, ""}; need(i, RVal::Int, "at"); if (i.i < 0 || (size_t)i.i >= o.s.size()) throw RErr{22, ""}; return RVal::I((unsigned char)o.s[i.i]); } if (o.t != RVal::Tab) throw Unsupported{"at on non table"}; if (i.t == RVal::Null) throw RErr{22, ""}; need(i, RVal::Int, "at"); if (i.i < 0 || (size_t)i.i >= o.items.size()) throw RErr{22, ""}; return o.items[i.i]; }
    // the receiver: a variable (mutated in place) or a temporary (a fresh value that nothing else can see)
    std::string n = isvar ? upper(e["o"]["n"].get<std::string>()) : std::string(); RVal tmp; if (!isvar) tmp = eval(env, e["o"]);
    auto target = [&]() -> RVal& { return isvar ? lookup(env, n) : tmp; };
    { RVal& o = target();
      // concat on an untyped null: the receiver becomes the string (or the one-character string) it is given
      if (o.t == RVal::Null && o.elem == "undefined" && m == "concat") { RVal a = eval(env, e["args"][0]); RVal& oo = target(); if (a.t == RVal::Str) { oo = RVal::S(a.s); return oo; } if (a.t == RVal::Int && a.i >= 1 && a.i <= 255) { oo = RVal::S(std::string(1, (char)a.i)); return oo; } throw Unsupported{"concat on null with that argument"}; }
      if (o.t == RVal::Str && m == "concat") { RVal a = eval(env, e["args"][0]); RVal& oo = target(); if (a.t == RVal::Str) oo.s += a.s; else if (a.t == RVal::Int) { if (a.i < 0 || a.i > 255) throw RErr{21, ""}; oo.s.push_back((char)a.i); } else throw Unsupported{"string concat argument"}; return oo; }
      if (o.t == RVal::Str && (m == "insert" || m == "put" || m == "delete")) {
        RVal p = eval(env, e["args"][0]); need(p, RVal::Int, "string position"); RVal& oo = target();
        if (m == "delete") { if (p.i < 0 || (size_t)p.i >= oo.s.size()) throw RErr{22, ""}; oo.s.erase((size_t)p.i, 1); return oo; }
        RVal a = eval(env, e["args"][1]); RVal& o2 = target();
        if (m == "put") { need(a, RVal::Int, "string put"); if (p.i < 0 || (size_t)p.i >= o2.s.size()) throw RErr{22, ""}; if (a.i < 0 || a.i > 255) throw RErr{21, ""}; o2.s[(size_t)p.i] = (char)a.i; return o2; }
        if (p.i < 0 || (size_t)p.i > o2.s.size()) throw RErr{22, ""};
        if (a.t == RVal::Str) o2.s.insert((size_t)p.i, a.s); else if (a.t == RVal::Int) { if (a.i < 0 || a.i > 255) throw RErr{21, ""}; o2.s.insert((size_t)p.i, 1, (char)a.i); } else throw Unsupported{"string insert argument"};
        return o2; }
      if (o.t != RVal::Tab) throw Unsupported{m + " on non table"}; }
    std::vector<RVal> a; for (auto& x : e["args"]) a.push_back(eval(env, x));
    RVal& o = target();
    // an argument of the element type, a null (typed like the element or untyped) or - for integer tables - a decimal
    auto coerce = [&](RVal& v) {
      if (v.t == RVal::Null) { if (v.elem == o.elem || v.elem == "undefined" || (o.elem == "integer" && v.elem == "decimal")) { v = RVal::N(o.elem); return; } throw Unsupported{m + ": null of another type"}; }
      if (o.elem == "integer" && v.t == RVal::Dec) { v = RVal::I((long long)v.d); return; }
      if (type_name(v) != o.elem) throw Unsupported{m + ": element type differs"};
    };
    auto elem_ok = [&](RVal& v) { coerce(v); };
    if (m == "concat") { elem_ok(a[0]); o.items.push_back(a[0]); return o; }
    if ((m == "put" || m == "insert" || m == "delete") && a[0].t == RVal::Null) throw RErr{22, ""};
    if (m == "put") { need(a[0], RVal::Int, "put"); if (a[0].i < 0 || (size_t)a[0].i >= o.items.size()) throw RErr{22, ""}; elem_ok(a[1]); o.items[a[0].i] = a[1]; return o; }
    if (m == "insert") { need(a[0], RVal::Int, "insert"); if (a[0].i < 0 || (size_t)a[0].i > o.items.size()) throw RErr{22, ""}; elem_ok(a[1]); o.items.insert(o.items.begin() + a[0].i, a[1]); return o; }
    if (m == "delete") { need(a[0], RVal::Int, "delete"); if (a[0].i < 0 || (size_t)a[0].i >= o.items.size()) throw RErr{22, ""}; o.items.erase(o.items.begin() + a[0].i); return o; }
    throw Unsupported{"method " + m};
  }

  RVal call(Env& env, const json& e) {
    std::string key = upper(e["f"].get<std::string>()) + "/" + std::to_string(e["args"].size());
    auto it = funcs.find(key); if (it == funcs.end()) throw Unsupported{"call of unknown function " + key};
    if (env.depth == 255) throw RErr{31, ""};
    const json& f = it->second;
    Env callee; callee.depth = env.depth + 1;
    size_t i = 0;
    for (auto& p : f["params"]) { RVal v = eval(env, e["args"][i++]); callee.vars[upper(p["n"].get<std::string>())] = v; }
    // a function runs in its own context: the error being handled by the caller is not visible in the callee
    std::vector<RErr> saved; saved.swap(error_stack); struct Restore { std::vector<RErr>& cur; std::vector<RErr>& old; ~Restore() { cur.swap(old); } } restore{error_stack, saved};
    Flow fl = block(callee, f["body"]); (void)fl;
    if (callee.has_returned) return callee.returned;
    return RVal::N("undefined");
  }

  // ---------------------------------------------------------------- statements
  Flow block(Env& env, const json& b) { for (auto& s : b) { Flow f = stmt(env, s); if (f != NORMAL) return f; } return NORMAL; }

  // loops release their iterator bindings on every exit route
  // (a forall iterator is a null of the element type once its loop has ended, on every exit route)
  struct IterGuard { Env& env; std::string n; bool ref; std::string elem; IterGuard(Env& e, const std::string& nn, bool r, const std::string& el = "") : env(e), n(nn), ref(r), elem(el) { env.busy_iters.push_back(n); } ~IterGuard() { env.busy_iters.pop_back(); if (ref) { env.refs.erase(n); if (elem.empty()) env.vars.erase(n); else env.vars[n] = RVal::N(elem); } } };

  Flow stmt(Env& env, const json& s) {
    step();
    const std::string k = s.value("k", "");
    if (k == "nop" || k == "import" || k == "may_be_rejected") return NORMAL;
    if (k == "let") { RVal v = eval(env, s["e"]); std::string n = upper(s["n"].get<std::string>()); if (v.t == RVal::Null && v.elem == "?") throw Unsupported{"assignment of an unset value"}; assign(env, n, v); return NORMAL; }
    if (k == "print" || k == "put") { for (auto& e : s["es"]) res.out += printable_of(eval(env, e), k == "put"); if (k == "print") res.out += "\n"; return NORMAL; }   // items reach the stream one by one
    if (k == "do") { (void)eval(env, s["e"]); return NORMAL; }
    if (k == "if") {
      RVal c = eval(env, s["c"]); if (c.t == RVal::Null) c = RVal::B(false); need(c, RVal::Bool, "if");
      if (c.b) return block(env, s["then"]);
      if (s.contains("elifs")) for (auto& ei : s["elifs"]) { RVal c2 = eval(env, ei["c"]); need(c2, RVal::Bool, "elsif"); if (c2.b) return block(env, ei["body"]); }
      if (s.contains("else")) return block(env, s["else"]);
      return NORMAL;
    }
    if (k == "while") {
      struct LoopGuard { Env& e; LoopGuard(Env& x) : e(x) { ++e.loops; } ~LoopGuard() { --e.loops; } } loop_guard(env);
      for (;;) {
        RVal c = eval(env, s["c"]); need(c, RVal::Bool, "while"); if (!c.b) return NORMAL;
        Flow f = block(env, s["body"]);
        if (f == BREAK) return NORMAL; if (f == RETURN) return RETURN;
        step();
      }
    }
    if (k == "for") {
      struct LoopGuard { Env& e; LoopGuard(Env& x) : e(x) { ++e.loops; } ~LoopGuard() { --e.loops; } } loop_guard(env);
      std::string n = upper(s["n"].get<std::string>());
      // the three control expressions are evaluated once; a null bound or step means zero iterations
      RVal b = eval(env, s["a"]); if (b.t == RVal::Null) return NORMAL; need(b, RVal::Int, "for");
      RVal e = eval(env, s["b"]); if (e.t == RVal::Null) return NORMAL; need(e, RVal::Int, "for");
      long long st = 1;
      if (s.contains("step") && !s["step"].is_null()) { RVal sv = eval(env, s["step"]); if (sv.t == RVal::Null) return NORMAL; need(sv, RVal::Int, "step"); st = sv.i; if (st < 1) throw RErr{21, ""}; }
      std::string dir = s.value("dir", "");
      long long mn, mx, inc;
      if (e.i > b.i) { if (dir == "desc") return NORMAL; mn = b.i; mx = e.i; inc = st; }
      else { if (dir == "asc" && e.i != b.i) return NORMAL; mn = e.i; mx = b.i; inc = -st; }
      for (auto& bi : env.busy_iters) if (bi == n) throw Unsupported{"iterator reused by a nested loop"};
      assign(env, n, RVal::I(b.i));
      IterGuard g(env, n, false);
      for (;;) {
        Flow f = block(env, s["body"]);
        if (f == BREAK) return NORMAL; if (f == RETURN) return RETURN;
        step();
        RVal& it = lookup(env, n); if (it.t != RVal::Int) throw Unsupported{"iterator retyped"};
        // the control variable never wraps around: the loop ends when the next value would leave [first, limit]
        long long nxt;
        if (__builtin_add_overflow(it.i, inc, &nxt)) return NORMAL;
        if ((inc > 0 && nxt > mx) || (inc < 0 && nxt < mn)) return NORMAL;
        it.i = nxt;
      }
    }
    if (k == "forall") {
      struct LoopGuard { Env& e; LoopGuard(Env& x) : e(x) { ++e.loops; } ~LoopGuard() { --e.loops; } } loop_guard(env);
      std::string n = upper(s["n"].get<std::string>());
      if (s["o"].value("k", "") != "var") throw Unsupported{"forall over a temporary"};
      std::string tn = upper(s["o"]["n"].get<std::string>());
      RVal& t = lookup(env, tn); if (t.t == RVal::Null) return NORMAL; if (t.t != RVal::Tab) throw Unsupported{"forall over non table"};
      if (t.items.empty()) return NORMAL;
      for (auto& bi : env.busy_iters) if (bi == n) throw RErr{4, ""};
      bool desc = s.value("dir", "") == "desc";
      long idx = desc ? (long)t.items.size() - 1 : 0;
      env.vars.erase(n); env.refs[n] = Ref{tn, idx};
      IterGuard g(env, n, true, (t.elem == "integer" || t.elem == "string" || t.elem == "boolean" || t.elem == "decimal") ? t.elem : std::string());
      for (;;) {
        Flow f = block(env, s["body"]);
        if (f == BREAK) return NORMAL; if (f == RETURN) return RETURN;
        step();
        idx += desc ? -1 : 1;
        RVal& tt = env.vars[tn];
        if (idx < 0 || (size_t)idx >= tt.items.size()) return NORMAL;
        env.refs[n] = Ref{tn, idx};
      }
    }
    if (k == "break") return env.loops > 0 ? BREAK : NORMAL;
    if (k == "continue") return env.loops > 0 ? CONTINUE : NORMAL;
    if (k == "return") { if (s.contains("e") && !s["e"].is_null()) { env.returned = eval(env, s["e"]); env.has_returned = true; } return RETURN; }
    if (k == "raise") { std::string n = upper(s["n"].get<std::string>()); if (n == "OUT_OF_RANGE") throw RErr{21, ""}; if (n == "DIVIDE_BY_ZERO") throw RErr{23, ""}; throw RErr{1, n}; }
    if (k == "begin") {
      try { return block(env, s["body"]); }
      catch (RErr& er) {
        if (!catchable(er.code) || !s.contains("handlers")) throw;
        for (auto& h : s["handlers"]) {
          std::string hn = upper(h["n"].get<std::string>());
          bool match = hn == "OTHERS" || (er.code != 1 && hn == throwable_name(er.code)) || (er.code == 1 && hn == er.name);
          if (!match) continue;
          res.trace.push_back("handler " + hn);
          error_stack.push_back(er);
          struct Pop { std::vector<RErr>& v; ~Pop() { v.pop_back(); } } pop{error_stack};
          return block(env, h["body"]);
        }
        throw;
      }
    }
    if (k == "func") { funcs[upper(s["n"].get<std::string>()) + "/" + std::to_string(s["params"].size())] = s; return NORMAL; }
    if (k == "rawstmt") throw Unsupported{"raw statement"};
    throw Unsupported{"statement kind " + k};
  }
};

} // namespace

std::string rval_dump(const RVal& v) {
  char buf[64];
  switch (v.t) {
  case RVal::Null: return "null<" + (v.elem.empty() ? std::string("undefined") : v.elem) + ">";
  case RVal::Int: return "I:" + std::to_string(v.i);
  case RVal::Bool: return v.b ? "B:T" : "B:F";
  case RVal::Str: return "L:\"" + v.s + "\"";
  case RVal::Dec: snprintf(buf, sizeof buf, "N:%.17g", v.d); return buf;
  case RVal::Obj: return "O:vf";
  case RVal::Tab: { std::string s = "[[" + v.elem + "]|"; for (size_t i = 0; i < v.items.size(); ++i) { if (i) s += ","; s += rval_dump(v.items[i]); } return s + "]"; }
  case RVal::Tup: { std::string s = "T{"; for (size_t i = 0; i < v.items.size(); ++i) { if (i) s += ","; s += v.items[i].t == RVal::Int ? "integer" : v.items[i].t == RVal::Str ? "string" : v.items[i].t == RVal::Bool ? "boolean" : v.items[i].t == RVal::Null ? v.items[i].elem : "?"; } s += "}("; for (size_t i = 0; i < v.items.size(); ++i) { if (i) s += ","; s += rval_dump(v.items[i]); } return s + ")"; }
  }
  return "?";
}

RResult ref_run_units(const std::vector<std::vector<json>>& units, const RConfig& cfg) {
  RResult res; Interp in(cfg, res); Env root;
  // one outcome per unit, joined by '|': the host reports an error and goes on with the next unit in the same context
  bool first = true; size_t unit_index = 0;
  for (auto& u : units) {
    size_t ui = unit_index++;
    { bool may = false; for (auto& s : u) if (s.value("k", "") == "may_be_rejected") may = true;
      if (may && std::find(cfg.rejected_units.begin(), cfg.rejected_units.end(), ui) != cfg.rejected_units.end()) { res.outcome += (first ? "" : "|") + std::string("parse_error"); first = false; continue; } }
    std::string oc = "ok";
    if (!res.unsupported) {
      try {
        root.has_returned = false;
        bool rejected = false; for (auto& s : u) if (s.value("k", "") == "expect_parse_error") rejected = true;
        if (rejected) { res.outcome += (first ? "" : "|") + std::string("parse_error"); first = false; continue; }
        for (auto& s : u) if (s.value("k", "") == "func") in.funcs[upper(s["n"].get<std::string>()) + "/" + std::to_string(s["params"].size())] = s;
        for (auto& s : u) { Flow f = in.stmt(root, s); if (f != NORMAL) break; }
      }
      catch (RErr& e) { oc = "runtime_error(" + std::to_string(e.code) + (e.code == 1 ? ":" + e.name : "") + ")"; in.error_stack.clear(); root.busy_iters.clear(); }
      catch (Unsupported& un) { res.unsupported = true; res.unsupported_why = un.why; }
      catch (StepLimit&) { res.unsupported = true; res.unsupported_why = "model step limit"; }
    }
    res.outcome += (first ? "" : "|") + oc; first = false;
  }
  res.has_returned = root.has_returned; res.returned = root.returned;
  for (auto& kv : root.vars) res.store[kv.first] = rval_dump(kv.second);
  return res;
}

RResult ref_run(const json& ast, const RConfig& cfg) {
  std::vector<json> all;
  for (const char* sec : {"prelude", "funcs", "body"}) if (ast.contains(sec)) for (auto& s : ast[sec]) all.push_back(s);
  return ref_run_units({all}, cfg);
}

} // namespace sim
