// Independent reference lexer for BLOC source text, written by hand from the rule
// section of blocc/tokenizer.lex (longest match, rule priority, the two exclusive start
// conditions) plus the token merging of Parser::next_token. Shares no code with the
// generated scanner. Produces the token stream the parser sees in Parsing state.
#pragma once
#include <string>
#include <vector>
#include <utility>

namespace sim {

struct RefToken { int code; std::string text; size_t pos = 0, end = 0; };  // [pos,end) byte range in the text

// Token codes (tokenizer.h)
enum {
  RT_INTEGER = 302, RT_DOUBLE = 303, RT_FLOAT = 304, RT_KEYWORD = 305, RT_LITERALSTR = 307, RT_HEXANUM = 314,
  RT_ISEQUAL = 320, RT_ISEQMORE = 321, RT_ISEQLESS = 322, RT_ISNOTEQ = 325,
  RT_ASSIGN = 330, RT_POPLEFT = 331, RT_PUSHRIGHT = 332, RT_INCREMENT = 333, RT_DECREMENT = 334,
  RT_POWER = 335, RT_AND = 336, RT_OR = 337
};

struct RefLexResult {
  std::vector<RefToken> tokens;
  bool open_literal = false;   // EOF inside a string
  bool open_comment = false;   // EOF inside a comment
  // [begin,end) byte ranges of multi-byte lexemes (for the "straddles a cut" probe) with a class label
  struct Span { size_t b, e; const char* cls; };
  std::vector<Span> spans;
};

RefLexResult reflex(const std::string& text, bool keep_newlines = false);

} // namespace sim
