#include "reflex.h"
#include <cstring>

namespace sim {

static inline bool isdigit_(unsigned char c) { return c >= '0' && c <= '9'; }
static inline bool isletter_(unsigned char c) { return (c >= 'a' && c <= 'z') || (c >= 'A' && c <= 'Z') || c == '_' || c == '$'; }
static inline bool isalnum_(unsigned char c) { return isletter_(c) || isdigit_(c); }
static inline bool ishex_(unsigned char c) { return isdigit_(c) || (c >= 'a' && c <= 'f') || (c >= 'A' && c <= 'F'); }
static inline bool isws_(unsigned char c) { return c == ' ' || c == '\t' || c == '\v' || c == '\f'; }

// length of DIGIT+ at p
static size_t digits(const std::string& s, size_t p) { size_t n = 0; while (p + n < s.size() && isdigit_(s[p + n])) ++n; return n; }

// DOUBLE: D1 = DIGIT+ '.' DIGIT+ | D2 = '.' DIGIT+ ; returns length or 0
static size_t match_double(const std::string& s, size_t p) {
  size_t a = digits(s, p);
  if (p + a < s.size() && s[p + a] == '.') { size_t b = digits(s, p + a + 1); if (b > 0) return a + 1 + b; }
  return 0;
}
// FLOAT: (DIGIT+|DOUBLE) [eE][+-]? DIGIT+
static size_t match_float(const std::string& s, size_t p) {
  size_t best = 0;
  size_t mant[2] = { digits(s, p), match_double(s, p) };
  for (size_t m : mant) {
    if (m == 0) continue;
    size_t q = p + m;
    if (q < s.size() && (s[q] == 'e' || s[q] == 'E')) {
      ++q; if (q < s.size() && (s[q] == '+' || s[q] == '-')) ++q;
      size_t d = digits(s, q);
      if (d > 0 && q + d - p > best) best = q + d - p;
    }
  }
  return best;
}

RefLexResult reflex(const std::string& s, bool keep_newlines) {
  RefLexResult R;
  enum { INITIAL, COMMENT, LITERAL } st = INITIAL;
  std::string sbuf; size_t sbeg = 0;
  size_t p = 0; bool bol = true;
  static const struct { const char* t; int code; } OPS[] = {
    {"==", RT_ISEQUAL}, {">=", RT_ISEQMORE}, {"<=", RT_ISEQLESS}, {"!=", RT_ISNOTEQ}, {"<>", RT_ISNOTEQ},
    {":=", RT_ASSIGN}, {"<<", RT_POPLEFT}, {">>", RT_PUSHRIGHT}, {"++", RT_INCREMENT}, {"--", RT_DECREMENT},
    {"**", RT_POWER}, {"&&", RT_AND}, {"||", RT_OR} };
  while (p < s.size()) {
    unsigned char c = s[p];
    if (st == COMMENT) {
      if (c == '*' && p + 1 < s.size() && s[p + 1] == '/') { R.spans.push_back({p, p + 2, "comment_end"}); p += 2; st = INITIAL; bol = false; continue; }
      bol = (c == '\n'); ++p; continue;
    }
    if (st == LITERAL) {
      if (p + 1 < s.size() && ((c == '\\' && s[p + 1] == '\\') || (c == '"' && s[p + 1] == '"') || (c == '\\' && s[p + 1] == '"'))) {
        R.spans.push_back({p, p + 2, c == '"' ? "quote_quote" : (s[p + 1] == '"' ? "backslash_quote" : "backslash_backslash")});
        sbuf.append(s, p, 2); p += 2; bol = false; continue;
      }
      if (c == '"') { sbuf.push_back('"'); ++p; st = INITIAL; bol = false; R.tokens.push_back({RT_LITERALSTR, sbuf, sbeg, p}); continue; }
      sbuf.push_back((char)c); bol = (c == '\n'); ++p; continue;
    }
    // INITIAL: collect candidates (length, priority = rule order; lower wins ties)
    size_t best = 0; int prio = 1000; int code = 0; const char* cls = nullptr;
    auto cand = [&](size_t len, int pr, int cd, const char* cl) { if (len > best || (len == best && len > 0 && pr < prio)) { best = len; prio = pr; code = cd; cls = cl; } };
    // 1 "/*"
    if (c == '/' && p + 1 < s.size() && s[p + 1] == '*') cand(2, 1, -1, "comment_beg");
    // 2 {SP}?\"   SP = u8|u|U|L
    {
      size_t n = 0;
      if (c == '"') n = 1;
      else if (c == 'u' && p + 2 < s.size() && s[p + 1] == '8' && s[p + 2] == '"') n = 3;
      else if ((c == 'u' || c == 'U' || c == 'L') && p + 1 < s.size() && s[p + 1] == '"') n = 2;
      if (n) cand(n, 2, -2, n > 1 ? "literal_prefix" : nullptr);
    }
    // 3 "//".*
    if (c == '/' && p + 1 < s.size() && s[p + 1] == '/') { size_t q = p + 2; while (q < s.size() && s[q] != '\n') ++q; cand(q - p, 3, -3, "line_comment"); }
    // 4 ^[ \t]*#.*
    if (bol) { size_t q = p; while (q < s.size() && (s[q] == ' ' || s[q] == '\t')) ++q; if (q < s.size() && s[q] == '#') { while (q < s.size() && s[q] != '\n') ++q; cand(q - p, 4, -4, "directive"); } }
    // 5 INTEGER
    { size_t n = digits(s, p); if (n) cand(n, 5, RT_INTEGER, n > 1 ? "integer" : nullptr); }
    // 6 HEXANUM
    if (c == '0' && p + 2 < s.size() && (s[p + 1] == 'x' || s[p + 1] == 'X') && ishex_(s[p + 2])) { size_t q = p + 2; while (q < s.size() && ishex_(s[q])) ++q; cand(q - p, 6, RT_HEXANUM, "hexanum"); }
    // 7 DOUBLE
    { size_t n = match_double(s, p); if (n) cand(n, 7, RT_DOUBLE, "double"); }
    // 8 FLOAT
    { size_t n = match_float(s, p); if (n) cand(n, 8, RT_FLOAT, "float"); }
    // 9 SPACE = WS*
    { size_t q = p; while (q < s.size() && isws_(s[q])) ++q; if (q > p) cand(q - p, 9, -9, nullptr); }
    // 10.. two-char operators
    if (p + 1 < s.size()) for (size_t i = 0; i < sizeof(OPS) / sizeof(OPS[0]); ++i) if (c == (unsigned char)OPS[i].t[0] && s[p + 1] == OPS[i].t[1]) cand(2, 10 + (int)i, OPS[i].code, "operator2");
    // 30 KEYWORD
    if (isletter_(c)) { size_t q = p + 1; while (q < s.size() && isalnum_(s[q])) ++q; cand(q - p, 30, RT_KEYWORD, q - p > 1 ? "keyword" : nullptr); }
    // 40 .|\n
    cand(1, 40, c, nullptr);

    if (cls && best > 1) R.spans.push_back({p, p + best, cls});
    std::string text = s.substr(p, best);
    switch (code) {
    case -1: st = COMMENT; break;
    case -2: st = LITERAL; sbuf = text; sbeg = p; break;
    case -3: case -4: case -9: break;
    default:
      if (code == '\n') { if (keep_newlines) R.tokens.push_back({'\n', "\n", p, p + 1}); }
      else if (code == 0) { /* NUL byte: rule has no return */ }
      else R.tokens.push_back({code, text, p, p + best});
    }
    bol = (s[p + best - 1] == '\n');
    p += best;
  }
  R.open_literal = (st == LITERAL); R.open_comment = (st == COMMENT);
  return R;
}

} // namespace sim
