// Reference interpreter R: a small executable model of the defined subset of BLOC that the
// generator (sim/gen) emits. It interprets the same JSON AST the printer turned into source text,
// with the same fault plan, and yields the expected output, outcome and final variable store.
// Semantics are taken from docs/BLOC-Reference-Manual.md; it shares no code with the library.
#pragma once
#include "core/profile.h"
#include "seams/vfhost.h"
#include <map>
#include <string>
#include <vector>

namespace sim {

struct RVal {
  enum T { Null, Int, Bool, Str, Dec, Tab, Tup, Obj } t = Null;
  long long i = 0; bool b = false; double d = 0; std::string s;
  std::vector<RVal> items;          // table elements / tuple items
  std::string elem;                 // table: element type name ("integer", "string"); Null: type name of a typed null
  long obj = 0;                     // object identity (model-side)
  static RVal I(long long v) { RVal r; r.t = Int; r.i = v; return r; }
  static RVal B(bool v) { RVal r; r.t = Bool; r.b = v; return r; }
  static RVal S(const std::string& v) { RVal r; r.t = Str; r.s = v; return r; }
  static RVal D(double v) { RVal r; r.t = Dec; r.d = v; return r; }
  static RVal N(const std::string& ty = "undefined") { RVal r; r.t = Null; r.elem = ty; return r; }
};

struct RResult {
  std::string outcome;              // "ok" | "runtime_error(<code>[:NAME])"
  std::string out;                  // bytes printed
  std::map<std::string, std::string> store;   // NAME -> deep value in the format of sim::dump_value (flags/symbol types off)
  long steps = 0;                   // statements executed by the model (basis of the liveness budget)
  long faults_fired = 0;
  bool unsupported = false;         // the program left the modelled subset (run is then not compared)
  std::string unsupported_why;
  bool has_returned = false; RVal returned;
  std::vector<std::string> trace;   // handler / loop trace for diagnostics
};

struct RConfig {
  std::vector<FaultSpec> faults;    // same plan as armed in VfHost (task ignored)
  long max_steps = 200000;
  // units (by index) marked {"k":"may_be_rejected"} that the implementation's compiler refused: where the manual allows
  // both a compile-time rejection and a run-time conversion (int/decimal mixing) the model follows the compiler
  std::vector<size_t> rejected_units;
};

// run prelude+funcs+body as one unit (how Parser::parse + Executable::run treat one source)
RResult ref_run(const json& ast, const RConfig& cfg);
// run a list of statement blocks one after another in the same context (units), stopping at the first error
RResult ref_run_units(const std::vector<std::vector<json>>& units, const RConfig& cfg);

// deep value in dump format
std::string rval_dump(const RVal& v);

} // namespace sim
