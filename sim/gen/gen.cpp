#include "gen.h"
#include <algorithm>
#include <cstdio>

namespace sim {

// ------------------------------------------------------------------ printer
std::string quote_str(const std::string& s) {
  std::string o = "\"";
  for (unsigned char c : s) {
    switch (c) {
    case '"': o += "\\\""; break;
    case '\\': o += "\\\\"; break;
    case '\n': o += "\\n"; break;
    case '\t': o += "\\t"; break;
    default: o.push_back((char)c);
    }
  }
  return o + "\"";
}

static std::string fmt_dec(double d) {
  char b[64]; snprintf(b, sizeof b, "%.17g", d);
  std::string s = b;
  if (s.find('.') == std::string::npos && s.find('e') == std::string::npos && s.find("inf") == std::string::npos && s.find("nan") == std::string::npos) s += ".0";
  return s;
}

static std::string args_str(const json& a) { std::string s; for (size_t i = 0; i < a.size(); ++i) { if (i) s += ", "; s += print_expr(a[i]); } return s; }

std::string print_expr(const json& e) {
  const std::string k = e.value("k", "");
  if (k == "int") { long long v = e["v"].get<long long>(); if (v < 0) return "(" + std::to_string(v) + ")"; return std::to_string(v); }
  if (k == "bool") return e["v"].get<bool>() ? "true" : "false";
  if (k == "str") return quote_str(e["v"].get<std::string>());
  if (k == "dec") { double d = e["v"].get<double>(); return d < 0 ? "(" + fmt_dec(d) + ")" : fmt_dec(d); }
  if (k == "null") { std::string t = e.value("t", ""); if (t == "int") return "int()"; if (t == "bool") return "bool()"; if (t == "str") return "str()"; if (t == "dec") return "num()"; return "null"; }
  if (k == "var") return e["n"].get<std::string>();
  if (k == "bin") return "(" + print_expr(e["a"]) + " " + e["op"].get<std::string>() + " " + print_expr(e["b"]) + ")";
  if (k == "un") { std::string op = e["op"].get<std::string>(); return "(" + op + (op == "not" ? " " : "") + print_expr(e["a"]) + ")"; }
  if (k == "call" || k == "bi") return e["f"].get<std::string>() + "(" + args_str(e["args"]) + ")";
  if (k == "mth") return print_expr(e["o"]) + "." + e["m"].get<std::string>() + "(" + args_str(e["args"]) + ")";
  if (k == "item") return print_expr(e["o"]) + "@" + std::to_string(e["i"].get<long long>());
  if (k == "setitem") return print_expr(e["o"]) + ".set@" + std::to_string(e["i"].get<long long>()) + "(" + print_expr(e["e"]) + ")";
  if (k == "tab") return "tab(" + print_expr(e["n"]) + ", " + print_expr(e["e"]) + ")";
  if (k == "tup") return "tup(" + args_str(e["es"]) + ")";
  if (k == "vfnew") return e["tag"].is_null() ? "vf()" : "vf(" + print_expr(e["tag"]) + ")";
  if (k == "pt") return print_expr(e["recv"]) + "." + e["m"].get<std::string>() + "(" + std::to_string(e["id"].get<long long>()) + ", " + print_expr(e["e"]) + ")";
  if (k == "vfm") return print_expr(e["recv"]) + "." + e["m"].get<std::string>() + "(" + args_str(e["args"]) + ")";
  if (k == "err") return "error@" + std::to_string(e["i"].get<long long>());
  if (k == "raw") return e["v"].get<std::string>();
  return "/*?" + k + "*/";
}

static std::string ind(int n) { return std::string(n * 2, ' '); }
static std::string print_block(const json& b, int indent) { std::string s; for (auto& st : b) s += print_stmt(st, indent); return s; }
static const char* type_name(const std::string& t) {
  if (t == "int") return "integer"; if (t == "bool") return "boolean"; if (t == "str") return "string"; if (t == "dec") return "decimal";
  if (t == "tabint" || t == "tabstr") return "table"; if (t == "tup") return "tuple"; if (t == "obj") return "object"; return "undefined";
}

std::string print_stmt(const json& s, int n) {
  const std::string k = s.value("k", "");
  if (k == "let") return ind(n) + s["n"].get<std::string>() + " = " + print_expr(s["e"]) + ";\n";
  if (k == "print" || k == "put") {
    // a name followed by '(' would be read as a function call: bare names are parenthesised inside output lists
    std::string o = ind(n) + k;
    for (auto& e : s["es"]) { std::string x = print_expr(e); if (e.value("k", "") == "var") x = "(" + x + ")"; o += " " + x; }
    return o + ";\n";
  }
  if (k == "do") return ind(n) + "do " + print_expr(s["e"]) + ";\n";
  if (k == "nop") return ind(n) + "nop;\n";
  if (k == "if") {
    std::string o = ind(n) + "if " + print_expr(s["c"]) + " then\n" + print_block(s["then"], n + 1);
    if (s.contains("elifs")) for (auto& ei : s["elifs"]) o += ind(n) + "elsif " + print_expr(ei["c"]) + " then\n" + print_block(ei["body"], n + 1);
    if (s.contains("else") && !s["else"].empty()) o += ind(n) + "else\n" + print_block(s["else"], n + 1);
    return o + ind(n) + "end if;\n";
  }
  if (k == "while") return ind(n) + "while " + print_expr(s["c"]) + " loop\n" + print_block(s["body"], n + 1) + ind(n) + "end loop;\n";
  if (k == "for") {
    std::string o = ind(n) + "for " + s["n"].get<std::string>() + " in " + print_expr(s["a"]) + " to " + print_expr(s["b"]);
    if (s.contains("step") && !s["step"].is_null()) o += " step " + print_expr(s["step"]);
    std::string d = s.value("dir", ""); if (!d.empty()) o += " " + d;
    return o + " loop\n" + print_block(s["body"], n + 1) + ind(n) + "end loop;\n";
  }
  if (k == "forall") {
    std::string o = ind(n) + "forall " + s["n"].get<std::string>() + " in " + print_expr(s["o"]);
    std::string d = s.value("dir", ""); if (!d.empty()) o += " " + d;
    return o + " loop\n" + print_block(s["body"], n + 1) + ind(n) + "end loop;\n";
  }
  if (k == "break") return ind(n) + "break;\n";
  if (k == "continue") return ind(n) + "continue;\n";
  if (k == "return") return ind(n) + "return" + (s.contains("e") && !s["e"].is_null() ? " " + print_expr(s["e"]) : std::string()) + ";\n";
  if (k == "raise") return ind(n) + "raise " + s["n"].get<std::string>() + ";\n";
  if (k == "begin") {
    std::string o = ind(n) + "begin\n" + print_block(s["body"], n + 1);
    if (s.contains("handlers") && !s["handlers"].empty()) {
      o += ind(n) + "exception\n";
      for (auto& h : s["handlers"]) o += ind(n) + "when " + h["n"].get<std::string>() + " then\n" + print_block(h["body"], n + 1);
    }
    return o + ind(n) + "end;\n";
  }
  if (k == "func") {
    std::string o = ind(n) + "function " + s["n"].get<std::string>() + "(";
    bool first = true;
    for (auto& p : s["params"]) { if (!first) o += ", "; first = false; o += p["n"].get<std::string>(); std::string t = p.value("t", ""); if (!t.empty() && p.value("typed", false)) o += std::string(":") + type_name(t); }
    o += std::string(") return ") + type_name(s.value("ret", "")) + " is\n" + ind(n) + "begin\n" + print_block(s["body"], n + 1) + ind(n) + "end;\n";
    return o;
  }
  if (k == "import") return ind(n) + "import " + s["n"].get<std::string>() + ";\n";
  if (k == "rawstmt") return ind(n) + s["v"].get<std::string>() + "\n";
  if (k == "expect_parse_error") return ind(n) + s["v"].get<std::string>() + "\n";
  if (k == "may_be_rejected") return "";
  return ind(n) + "/*?" + k + "*/;\n";
}

std::vector<json> program_statements(const json& ast) {
  std::vector<json> v;
  for (const char* sec : {"prelude", "funcs", "body"}) if (ast.contains(sec)) for (auto& s : ast[sec]) v.push_back(s);
  return v;
}
std::string print_statements(const std::vector<json>& st) { std::string s; for (auto& x : st) s += print_stmt(x, 0); return s; }
std::string print_program(const json& ast) { return print_statements(program_statements(ast)); }

// ------------------------------------------------------------------ generator
namespace {

struct Var { std::string n, t; };

struct Scope {
  std::vector<Var> vars;          // assigned so far (visible names)
  bool in_func = false;
  std::string ret;                // function return type
  int loop_depth = 0;
  bool in_handler = false;
  std::vector<std::string> forall_locked;   // tables being traversed (cannot be modified)
  std::vector<std::string> iterators;       // loop iterators in scope (type constrained)
  std::vector<std::string> frozen;          // never assigned by generated statements (loop counters, recursion parameter)
};

struct Fn { std::string n; std::vector<std::string> pt; std::string ret; bool effect; };

struct G {
  Rng& r; const GenKnobs& k; int next_pt = 0; int next_wc = 0; int next_it = 0;
  std::vector<Fn> fns; std::vector<std::string> uerrs;
  int effect_budget = 0;  // at most one effectful sub-expression per expression
  G(Rng& rr, const GenKnobs& kk) : r(rr), k(kk) {}

  json ilit(long v) { return json{{"k", "int"}, {"v", v}}; }
  json slit(const std::string& s) { return json{{"k", "str"}, {"v", s}}; }
  json blit(bool b) { return json{{"k", "bool"}, {"v", b}}; }
  json var(const Var& v) { return json{{"k", "var"}, {"n", v.n}, {"t", v.t}}; }

  std::vector<Var> vars_of(const Scope& sc, const std::string& t) { std::vector<Var> v; for (auto& x : sc.vars) if (x.t == t) v.push_back(x); return v; }
  bool has(const Scope& sc, const std::string& t) { for (auto& x : sc.vars) if (x.t == t) return true; return false; }

  std::string rstr() { static const char* w[] = {"a", "bc", "xyz", "", "q r", "0", "Hello", "it's", "a\"b", "tab\\t"}; return w[r.below(10)]; }

  // the receiver of a fault point / vf method: a variable holding a vf object, or a fresh temporary
  json vf_recv(const Scope& sc) {
    auto o = vars_of(sc, "obj");
    if (!o.empty() && r.chance(0.8)) return var(r.pick(o));
    return json{{"k", "vfnew"}, {"tag", nullptr}, {"t", "obj"}};
  }
  bool can_vf(const Scope&) { return k.fault_points; }

  json wrap_pt(const Scope& sc, json e, const std::string& t) {
    if (!can_vf(sc) || effect_budget <= 0) return e;
    if (!r.chance(k.fault_point_rate)) return e;
    const char* m = t == "int" ? "pt" : t == "bool" ? "pb" : t == "str" ? "ps" : nullptr;
    if (!m) return e;
    --effect_budget;
    return json{{"k", "pt"}, {"id", ++next_pt}, {"m", m}, {"recv", vf_recv(sc)}, {"e", e}, {"t", t}};
  }

  // ---- expressions (pure unless the single effect budget is spent)
  json gen_int(const Scope& sc, int d) {
    json e;
    auto iv = vars_of(sc, "int");
    int c = d <= 0 ? (int)r.weighted({3, iv.empty() ? 0.0 : 4.0}) : (int)r.weighted({2, iv.empty() ? 0.0 : 3.0, 4, 1, 1, 1, 1, 1, 1});
    switch (c) {
    case 0: e = ilit(r.chance(0.15) ? -r.range(1, 9) : r.range(0, 12)); break;
    case 1: e = var(r.pick(iv)); break;
    case 2: {
      static const char* ops[] = {"+", "-", "*", "/", "%"};
      std::string op = ops[r.weighted({4, 3, 2, 1, 1})];
      json a = gen_int(sc, d - 1), b;
      if (op == "/" || op == "%") {
        // divisor: non-zero literal, or (when natural errors are on) occasionally something that may be zero
        if (k.natural_errors && effect_budget > 0 && r.chance(k.natural_error_rate * 4)) { b = r.chance(0.5) ? ilit(0) : gen_int(sc, 0); --effect_budget; }
        else b = ilit(r.range(1, 7));
      } else if (op == "*") b = ilit(r.range(0, 9));
      else b = gen_int(sc, d - 1);
      e = json{{"k", "bin"}, {"op", op}, {"a", a}, {"b", b}, {"t", "int"}}; break; }
    case 3: e = json{{"k", "un"}, {"op", "-"}, {"a", gen_int(sc, d - 1)}, {"t", "int"}}; break;
    case 4: { auto tv = vars_of(sc, "tabint"); if (k.tables && !tv.empty()) { json o = var(r.pick(tv)); if (r.chance(0.5)) e = json{{"k", "mth"}, {"m", "count"}, {"o", o}, {"args", json::array()}, {"t", "int"}}; else { json idx = (k.natural_errors && effect_budget > 0 && r.chance(k.natural_error_rate * 3)) ? (--effect_budget, ilit(r.range(5, 99))) : ilit(0); e = json{{"k", "mth"}, {"m", "at"}, {"o", o}, {"args", json::array({idx})}, {"t", "int"}}; } } else e = ilit(r.range(0, 5)); break; }
    case 5: { auto uv = vars_of(sc, "tup"); if (k.tuples && !uv.empty()) e = json{{"k", "item"}, {"o", var(r.pick(uv))}, {"i", 1}, {"t", "int"}}; else e = ilit(2); break; }
    case 6: { auto sv = vars_of(sc, "str"); if (!sv.empty()) e = json{{"k", "bi"}, {"f", "strlen"}, {"args", json::array({var(r.pick(sv))})}, {"t", "int"}}; else e = ilit(3); break; }
    case 7: { // user function returning int
      std::vector<Fn> c2; for (auto& f : fns) if (f.ret == "int" && (!sc.in_func)) c2.push_back(f);
      if (!c2.empty() && effect_budget > 0) { --effect_budget; Fn f = r.pick(c2); json args = json::array(); int saved = effect_budget; effect_budget = 0; for (auto& pt : f.pt) args.push_back(gen_expr(sc, pt, 0)); effect_budget = saved; e = json{{"k", "call"}, {"f", f.n}, {"args", args}, {"t", "int"}}; }
      else e = ilit(r.range(0, 3)); break; }
    default: { // vf method with logged arguments
      if (can_vf(sc) && effect_budget > 0 && r.chance(0.5)) { --effect_budget; int saved = effect_budget; effect_budget = 0; json a = gen_int(sc, 0), b = gen_int(sc, 0); effect_budget = saved; e = json{{"k", "vfm"}, {"m", "sum"}, {"recv", vf_recv(sc)}, {"args", json::array({a, b})}, {"t", "int"}}; }
      else e = ilit(r.range(0, 3)); break; }
    }
    return wrap_pt(sc, e, "int");
  }
  json gen_bool(const Scope& sc, int d) {
    json e; auto bv = vars_of(sc, "bool");
    switch (d <= 0 ? (int)r.weighted({2, bv.empty() ? 0.0 : 3.0, 3}) : (int)r.weighted({1, bv.empty() ? 0.0 : 2.0, 5, 1, 2, 1})) {
    case 0: e = blit(r.chance(0.5)); break;
    case 1: e = var(r.pick(bv)); break;
    case 2: { static const char* ops[] = {"<", "<=", ">", ">=", "==", "!="}; e = json{{"k", "bin"}, {"op", ops[r.below(6)]}, {"a", gen_int(sc, d - 1)}, {"b", gen_int(sc, d - 1)}, {"t", "bool"}}; break; }
    case 3: e = json{{"k", "un"}, {"op", "not"}, {"a", gen_bool(sc, d - 1)}, {"t", "bool"}}; break;
    case 4: { int saved = effect_budget; effect_budget = 0; json a = gen_bool(sc, d - 1), b = gen_bool(sc, d - 1); effect_budget = saved; e = json{{"k", "bin"}, {"op", r.chance(0.5) ? "and" : "or"}, {"a", a}, {"b", b}, {"t", "bool"}}; break; }
    default: { auto sv = vars_of(sc, "str"); if (sv.size() >= 1) e = json{{"k", "bin"}, {"op", r.chance(0.5) ? "==" : "!="}, {"a", var(r.pick(sv))}, {"b", slit(rstr())}, {"t", "bool"}}; else e = blit(true); break; }
    }
    return wrap_pt(sc, e, "bool");
  }
  // at most one string variable occurrence (keeps string growth linear in the number of steps)
  json gen_str(const Scope& sc, int d, bool& used_var) {
    json e; auto sv = vars_of(sc, "str");
    switch (d <= 0 ? (int)r.weighted({3, (sv.empty() || used_var) ? 0.0 : 3.0}) : (int)r.weighted({2, (sv.empty() || used_var) ? 0.0 : 3.0, 3, 2, 1, 1})) {
    case 0: e = slit(rstr()); break;
    case 1: e = var(r.pick(sv)); used_var = true; break;
    case 2: { json a = gen_str(sc, d - 1, used_var); json b = gen_str(sc, d - 1, used_var); e = json{{"k", "bin"}, {"op", "+"}, {"a", a}, {"b", b}, {"t", "str"}}; break; }
    case 3: e = json{{"k", "bi"}, {"f", "str"}, {"args", json::array({gen_int(sc, d - 1)})}, {"t", "str"}}; break;
    case 4: { auto uv = vars_of(sc, "tup"); if (k.tuples && !uv.empty() && !used_var) { used_var = true; e = json{{"k", "item"}, {"o", var(r.pick(uv))}, {"i", 2}, {"t", "str"}}; } else e = slit(rstr()); break; }
    default: { if (can_vf(sc) && effect_budget > 0) { --effect_budget; int saved = effect_budget; effect_budget = 0; json a = gen_str(sc, 0, used_var); effect_budget = saved; e = json{{"k", "vfm"}, {"m", "echo"}, {"recv", vf_recv(sc)}, {"args", json::array({a})}, {"t", "str"}}; } else e = slit(rstr()); break; }
    }
    return wrap_pt(sc, e, "str");
  }
  json gen_expr(const Scope& sc, const std::string& t, int d) {
    if (t == "int") return gen_int(sc, d);
    if (t == "bool") return gen_bool(sc, d);
    if (t == "str") { bool u = false; return gen_str(sc, d, u); }
    if (t == "dec") { static const double vals[] = {0.5, 1.25, 2.0, -3.75, 100.125, 0.0}; return json{{"k", "dec"}, {"v", vals[r.below(6)]}}; }
    if (t == "tabint") { auto tv = vars_of(sc, "tabint"); if (!tv.empty() && r.chance(0.4)) return var(r.pick(tv)); int saved = effect_budget; effect_budget = 0; json el = gen_int(sc, 0); effect_budget = saved; return json{{"k", "tab"}, {"n", ilit(r.range(0, 4))}, {"e", el}, {"t", "tabint"}}; }
    if (t == "tabstr") { auto tv = vars_of(sc, "tabstr"); if (!tv.empty() && r.chance(0.4)) return var(r.pick(tv)); return json{{"k", "tab"}, {"n", ilit(r.range(0, 3))}, {"e", slit(rstr())}, {"t", "tabstr"}}; }
    if (t == "tup") { auto uv = vars_of(sc, "tup"); if (!uv.empty() && r.chance(0.4)) return var(r.pick(uv)); int saved = effect_budget; effect_budget = 0; json a = gen_int(sc, 1); bool u = false; json b = gen_str(sc, 0, u); effect_budget = saved; return json{{"k", "tup"}, {"es", json::array({a, b})}, {"t", "tup"}}; }
    if (t == "obj") { auto ov = vars_of(sc, "obj"); if (!ov.empty() && r.chance(0.5)) return var(r.pick(ov)); return json{{"k", "vfnew"}, {"tag", r.chance(0.5) ? json(nullptr) : ilit(r.range(1, 99))}, {"t", "obj"}}; }
    return ilit(0);
  }
  json top_expr(const Scope& sc, const std::string& t, int d) { effect_budget = 1; json e = gen_expr(sc, t, d); effect_budget = 0; return e; }

  // ---- statements
  void add_var(Scope& sc, const std::string& n, const std::string& t) { for (auto& v : sc.vars) if (v.n == n) { v.t = t; return; } sc.vars.push_back({n, t}); }

  bool assignable(const Scope& sc, const Var& v) {
    for (auto& l : sc.forall_locked) if (l == v.n) return false;
    for (auto& l : sc.frozen) if (l == v.n) return false;
    return true;
  }

  json gen_let(Scope& sc) {
    // assign to an existing variable of the same type (types are kept stable), bounded to keep values small
    std::vector<Var> cand; for (auto& v : sc.vars) if (assignable(sc, v) && (v.t == "int" || v.t == "bool" || v.t == "str" || (v.t == "tabint" && k.tables) || (v.t == "tup" && k.tuples) || (v.t == "obj" && k.objects))) { bool it = false; for (auto& i : sc.iterators) if (i == v.n) it = true; if (!it) cand.push_back(v); }
    if (cand.empty()) return json{{"k", "nop"}};
    Var v = r.pick(cand);
    json e = top_expr(sc, v.t, 2);
    if (v.t == "int") e = json{{"k", "bin"}, {"op", "%"}, {"a", e}, {"b", ilit(1000)}, {"t", "int"}};
    return json{{"k", "let"}, {"n", v.n}, {"e", e}};
  }
  json gen_print(Scope& sc) {
    json es = json::array(); int n = (int)r.range(1, 3);
    static const char* ts[] = {"int", "str", "bool", "int", "str"};
    effect_budget = 1;
    for (int i = 0; i < n; ++i) { std::string t = ts[r.below(5)]; es.push_back(gen_expr(sc, t, 1)); }
    effect_budget = 0;
    // whole containers are printable as well
    if (r.chance(0.2)) { std::vector<Var> c; for (auto& v : sc.vars) if (v.t == "tabint" || v.t == "tup" || v.t == "tabstr") c.push_back(v); if (!c.empty()) es.push_back(var(r.pick(c))); }
    return json{{"k", r.chance(0.85) ? "print" : "put"}, {"es", es}};
  }
  json gen_container_op(Scope& sc) {
    std::vector<Var> tv; for (auto& v : vars_of(sc, "tabint")) if (assignable(sc, v)) tv.push_back(v);
    auto uv = vars_of(sc, "tup");
    if (k.tables && !tv.empty() && (uv.empty() || r.chance(0.7))) {
      Var t = r.pick(tv); json o = var(t);
      switch (r.below(4)) {
      case 0: return json{{"k", "do"}, {"e", json{{"k", "mth"}, {"m", "concat"}, {"o", o}, {"args", json::array({top_expr(sc, "int", 1)})}, {"t", "tabint"}}}};
      case 1: { json idx = (k.natural_errors && r.chance(k.natural_error_rate * 3)) ? ilit(r.range(7, 50)) : ilit(0); return json{{"k", "do"}, {"e", json{{"k", "mth"}, {"m", "put"}, {"o", o}, {"args", json::array({idx, top_expr(sc, "int", 1)})}, {"t", "tabint"}}}}; }
      case 2: return json{{"k", "do"}, {"e", json{{"k", "mth"}, {"m", "insert"}, {"o", o}, {"args", json::array({ilit(0), top_expr(sc, "int", 1)})}, {"t", "tabint"}}}};
      default: { json idx = (k.natural_errors && r.chance(k.natural_error_rate * 3)) ? ilit(r.range(20, 50)) : ilit(0); return json{{"k", "if"}, {"c", json{{"k", "bin"}, {"op", ">"}, {"a", json{{"k", "mth"}, {"m", "count"}, {"o", o}, {"args", json::array()}, {"t", "int"}}}, {"b", ilit(0)}, {"t", "bool"}}}, {"then", json::array({json{{"k", "do"}, {"e", json{{"k", "mth"}, {"m", "delete"}, {"o", o}, {"args", json::array({idx})}, {"t", "tabint"}}}}})}, {"elifs", json::array()}, {"else", json::array()}}; }
      }
    }
    if (k.tuples && !uv.empty()) { Var u = r.pick(uv); if (r.chance(0.5)) return json{{"k", "do"}, {"e", json{{"k", "setitem"}, {"o", var(u)}, {"i", 1}, {"e", top_expr(sc, "int", 1)}, {"t", "tup"}}}}; return json{{"k", "do"}, {"e", json{{"k", "setitem"}, {"o", var(u)}, {"i", 2}, {"e", top_expr(sc, "str", 1)}, {"t", "tup"}}}}; }
    return gen_print(sc);
  }
  // names first assigned inside a nested block are only used inside it (they may be unset on other paths)
  json gen_block(Scope& sc, int depth, int n) {
    std::vector<Var> saved = sc.vars; std::vector<std::string> fz = sc.frozen;
    json b = json::array(); for (int i = 0; i < n; ++i) b.push_back(gen_stmt(sc, depth));
    sc.vars = saved; sc.frozen = fz;
    return b;
  }

  json gen_stmt(Scope& sc, int depth) {
    std::vector<double> w = {
      /*0 let*/ 6, /*1 print*/ 5, /*2 container*/ (k.tables || k.tuples) ? 2.0 : 0.0,
      /*3 if*/ depth > 0 ? 2.0 : 0, /*4 for*/ depth > 0 ? 2.0 : 0, /*5 while*/ depth > 0 && k.while_loops ? 1.0 : 0, /*6 forall*/ depth > 0 && k.forall_loops && k.tables ? 1.0 : 0,
      /*7 begin*/ depth > 0 && k.exceptions ? 2.0 : 0, /*8 break/continue*/ sc.loop_depth > 0 ? 1.0 : 0, /*9 raise*/ k.natural_errors ? k.natural_error_rate * 8 : 0,
      /*10 return*/ (sc.in_func || k.returns) ? 0.4 : 0, /*11 call stmt*/ (!sc.in_func && !fns.empty()) ? 1.0 : 0, /*12 vf object stmt*/ k.objects ? 0.7 : 0 };
    switch (r.weighted(w)) {
    case 0: return gen_let(sc);
    case 1: return gen_print(sc);
    case 2: return gen_container_op(sc);
    case 3: {
      json s{{"k", "if"}, {"c", top_expr(sc, "bool", 1)}};
      s["then"] = gen_block(sc, depth - 1, (int)r.range(1, 3)); s["elifs"] = json::array();
      if (r.chance(0.25)) s["elifs"].push_back(json{{"c", top_expr(sc, "bool", 1)}, {"body", gen_block(sc, depth - 1, (int)r.range(1, 2))}});
      s["else"] = r.chance(0.5) ? gen_block(sc, depth - 1, (int)r.range(1, 2)) : json::array();
      return s; }
    case 4: {
      std::string it = "k" + std::to_string(next_it++ % 3);   // iterator names are reused on purpose
      for (auto& i : sc.iterators) if (i == it) it = "k" + std::to_string(3 + next_it++);
      json s{{"k", "for"}, {"n", it}};
      long a = r.range(-2, 3), b = a + r.range(-1, k.loop_max_iter - 1) * (r.chance(0.8) ? 1 : -1);
      s["a"] = r.chance(0.8) ? ilit(a) : top_expr(sc, "int", 1); s["b"] = r.chance(0.8) ? ilit(b) : json{{"k", "bin"}, {"op", "+"}, {"a", ilit(a)}, {"b", ilit(r.range(0, 3))}, {"t", "int"}};
      if (s["a"]["k"] != "int") s["b"] = json{{"k", "bin"}, {"op", "+"}, {"a", s["a"]}, {"b", ilit(r.range(0, 3))}, {"t", "int"}}, s["a"] = json(s["b"]["a"]);
      s["step"] = r.chance(0.25) ? ilit(r.range(k.natural_errors && r.chance(0.1) ? 0 : 1, 3)) : json(nullptr);
      static const char* dirs[] = {"", "", "", "asc", "desc"}; s["dir"] = dirs[r.below(5)];
      bool existed = false; std::string oldt; for (auto& v : sc.vars) if (v.n == it) { existed = true; oldt = v.t; }
      std::vector<Var> saved_vars = sc.vars;
      add_var(sc, it, "int"); sc.iterators.push_back(it); ++sc.loop_depth;
      s["body"] = gen_block(sc, depth - 1, (int)r.range(1, 3));
      --sc.loop_depth; sc.iterators.pop_back(); (void)existed; (void)oldt;
      sc.vars = saved_vars;   // the iterator is not used after its loop (unset after a zero-iteration loop)
      return s; }
    case 5: {
      std::string wc = "w" + std::to_string(next_wc++);
      // counter initialised by a preceding let (returned as a 2-statement 'if true' wrapper is avoided: use a begin-less pair)
      add_var(sc, wc, "int"); sc.frozen.push_back(wc);
      json loop{{"k", "while"}};
      json cond{{"k", "bin"}, {"op", "<"}, {"a", json{{"k", "var"}, {"n", wc}, {"t", "int"}}}, {"b", ilit(r.range(1, k.loop_max_iter))}, {"t", "bool"}};
      // a fault point inside the loop condition (an error there is raised while the loop holds the control)
      if (can_vf(sc) && k.fault_point_rate > 0 && r.chance(0.4)) cond = json{{"k", "bin"}, {"op", "and"}, {"a", cond}, {"b", json{{"k", "pt"}, {"id", ++next_pt}, {"m", "pb"}, {"recv", vf_recv(sc)}, {"e", json{{"k", "bool"}, {"v", true}}}, {"t", "bool"}}}, {"t", "bool"}};
      else if (r.chance(0.2)) cond = json{{"k", "bin"}, {"op", "and"}, {"a", cond}, {"b", json{{"k", "bool"}, {"v", true}}}, {"t", "bool"}};
      loop["c"] = cond;
      ++sc.loop_depth;
      json body = json::array(); body.push_back(json{{"k", "let"}, {"n", wc}, {"e", json{{"k", "bin"}, {"op", "+"}, {"a", json{{"k", "var"}, {"n", wc}, {"t", "int"}}}, {"b", ilit(1)}, {"t", "int"}}}});
      for (auto& st : gen_block(sc, depth - 1, (int)r.range(1, 3))) body.push_back(st);
      --sc.loop_depth; loop["body"] = body;
      // "seq" pseudo statement: printed as consecutive statements
      return json{{"k", "seq"}, {"body", json::array({json{{"k", "let"}, {"n", wc}, {"e", ilit(0)}}, loop})}}; }
    case 6: {
      auto tv = vars_of(sc, "tabint"); if (tv.empty()) return gen_print(sc);
      Var t = r.pick(tv); std::string it = "e" + std::to_string(next_it++ % 2);
      for (auto& i : sc.iterators) if (i == it) it = "e" + std::to_string(2 + next_it++);
      json s{{"k", "forall"}, {"n", it}, {"o", var(t)}}; static const char* dirs[] = {"", "", "asc", "desc"}; s["dir"] = dirs[r.below(4)];
      std::vector<Var> saved_vars = sc.vars;
      add_var(sc, it, "int"); sc.iterators.push_back(it); sc.forall_locked.push_back(t.n); ++sc.loop_depth;
      s["body"] = gen_block(sc, depth - 1, (int)r.range(1, 3));
      --sc.loop_depth; sc.forall_locked.pop_back(); sc.iterators.pop_back();
      sc.vars = saved_vars;   // after the loop the iterator is null: never used again
      return s; }
    case 7: {
      json s{{"k", "begin"}}; s["body"] = gen_block(sc, depth - 1, (int)r.range(1, 4)); s["handlers"] = json::array();
      std::vector<std::string> names = {"OTHERS", "DIVIDE_BY_ZERO", "OUT_OF_RANGE"}; for (auto& u : uerrs) names.push_back(u);
      int nh = (int)r.range(0, 3); std::vector<std::string> used;
      for (int i = 0; i < nh; ++i) { std::string nm = r.pick(names); if (std::find(used.begin(), used.end(), nm) != used.end()) continue; used.push_back(nm);
        bool sv = sc.in_handler; sc.in_handler = true; json hb = gen_block(sc, depth - 1, (int)r.range(1, 2));
        if (r.chance(0.5)) hb.insert(hb.begin(), json{{"k", "print"}, {"es", json::array({slit("H"), json{{"k", "err"}, {"i", 1}, {"t", "str"}}})}});
        sc.in_handler = sv; s["handlers"].push_back(json{{"n", nm}, {"body", hb}}); }
      return s; }
    case 8: return json{{"k", r.chance(0.5) ? "break" : "continue"}};
    case 9: { std::vector<std::string> names = {"DIVIDE_BY_ZERO", "OUT_OF_RANGE"}; for (auto& u : uerrs) names.push_back(u); return json{{"k", "raise"}, {"n", r.pick(names)}}; }
    case 10: { if (sc.in_func) return json{{"k", "return"}, {"e", top_expr(sc, sc.ret, 1)}}; return json{{"k", "return"}, {"e", r.chance(0.7) ? top_expr(sc, r.chance(0.5) ? "int" : "str", 1) : json(nullptr)}}; }
    case 11: { Fn f = r.pick(fns); json args = json::array(); effect_budget = 1; for (auto& pt : f.pt) args.push_back(gen_expr(sc, pt, 1)); effect_budget = 0; json call{{"k", "call"}, {"f", f.n}, {"args", args}, {"t", f.ret}};
      if (f.ret == "int") { auto iv = vars_of(sc, "int"); std::vector<Var> c; for (auto& v : iv) { bool it = !assignable(sc, v); for (auto& i : sc.iterators) if (i == v.n) it = true; if (!it) c.push_back(v); } if (!c.empty() && r.chance(0.6)) return json{{"k", "let"}, {"n", r.pick(c).n}, {"e", call}}; }
      return json{{"k", "print"}, {"es", json::array({call})}}; }
    default: {
      auto ov = vars_of(sc, "obj");
      if (ov.empty() || r.chance(0.3)) { std::string n = "o" + std::to_string(r.below(3)); bool locked = false; for (auto& i : sc.iterators) if (i == n) locked = true; if (locked) return gen_print(sc); bool other = false; for (auto& v : sc.vars) if (v.n == n && v.t != "obj") other = true; if (other) return gen_print(sc); add_var(sc, n, "obj"); return json{{"k", "let"}, {"n", n}, {"e", json{{"k", "vfnew"}, {"tag", r.chance(0.5) ? json(nullptr) : ilit(r.range(1, 99))}, {"t", "obj"}}}}; }
      Var o = r.pick(ov);
      switch (r.below(3)) {
      case 0: return json{{"k", "do"}, {"e", json{{"k", "vfm"}, {"m", "set"}, {"recv", var(o)}, {"args", json::array({top_expr(sc, "int", 1)})}, {"t", "obj"}}}};
      case 1: return json{{"k", "print"}, {"es", json::array({json{{"k", "vfm"}, {"m", "get"}, {"recv", var(o)}, {"args", json::array()}, {"t", "int"}}})}};
      default: { std::string n = "o" + std::to_string(r.below(3)); bool other = false; for (auto& v : sc.vars) if (v.n == n && v.t != "obj") other = true; if (other) return gen_print(sc); add_var(sc, n, "obj"); return json{{"k", "let"}, {"n", n}, {"e", var(o)}}; }
      }
    }
    }
  }

  json gen_func(int idx) {
    Fn f; f.n = "f" + std::to_string(idx); f.ret = r.chance(0.75) ? "int" : "str"; f.effect = true;
    int np = (int)r.range(0, 3); json params = json::array();
    Scope sc; sc.in_func = true; sc.ret = f.ret;
    bool recursive = k.recursion && np > 0 && r.chance(0.5);
    if (recursive) sc.frozen.push_back("ap");
    for (int i = 0; i < np; ++i) { std::string t = (recursive && i == 0) ? "int" : (r.chance(0.7) ? "int" : "str"); std::string n = std::string(1, (char)('a' + i)) + "p"; f.pt.push_back(t); params.push_back(json{{"n", n}, {"t", t}, {"typed", r.chance(0.5)}}); sc.vars.push_back({n, t}); }
    json body = json::array();
    // locals first (a name is only valid after its first assignment)
    body.push_back(json{{"k", "let"}, {"n", "x"}, {"e", ilit(r.range(0, 5))}}); sc.vars.push_back({"x", "int"});
    if (r.chance(0.5)) { body.push_back(json{{"k", "let"}, {"n", "y"}, {"e", slit(rstr())}}); sc.vars.push_back({"y", "str"}); }
    if (k.objects && k.fault_points && r.chance(0.4)) { body.push_back(json{{"k", "let"}, {"n", "o9"}, {"e", json{{"k", "vfnew"}, {"tag", nullptr}, {"t", "obj"}}}}); sc.vars.push_back({"o9", "obj"}); }
    std::vector<Fn> saved = fns; fns.clear();   // no calls from inside bodies except the recursion below
    { int nst = (int)r.range(1, 4); for (int i = 0; i < nst; ++i) body.push_back(gen_stmt(sc, std::max(1, k.max_depth - 1))); }
    fns = saved;
    // bounded recursion on the first integer parameter
    if (recursive && f.ret == "int") {
      json args = json::array(); args.push_back(json{{"k", "bin"}, {"op", "-"}, {"a", json{{"k", "var"}, {"n", "ap"}, {"t", "int"}}}, {"b", ilit(1)}, {"t", "int"}});
      for (int i = 1; i < np; ++i) args.push_back(f.pt[i] == "int" ? ilit(i) : slit("r"));
      json rec{{"k", "if"}, {"c", json{{"k", "bin"}, {"op", "and"}, {"a", json{{"k", "bin"}, {"op", ">"}, {"a", json{{"k", "var"}, {"n", "ap"}, {"t", "int"}}}, {"b", ilit(0)}, {"t", "bool"}}}, {"b", json{{"k", "bin"}, {"op", "<"}, {"a", json{{"k", "var"}, {"n", "ap"}, {"t", "int"}}}, {"b", ilit(6)}, {"t", "bool"}}}, {"t", "bool"}}},
               {"then", json::array({json{{"k", "let"}, {"n", "x"}, {"e", json{{"k", "bin"}, {"op", "+"}, {"a", json{{"k", "var"}, {"n", "x"}, {"t", "int"}}}, {"b", json{{"k", "call"}, {"f", f.n}, {"args", args}, {"t", "int"}}}, {"t", "int"}}}}})}, {"elifs", json::array()}, {"else", json::array()}};
      body.push_back(rec);
    }
    body.push_back(json{{"k", "return"}, {"e", f.ret == "int" ? json{{"k", "bin"}, {"op", "%"}, {"a", json{{"k", "var"}, {"n", "x"}, {"t", "int"}}}, {"b", ilit(1000)}, {"t", "int"}} : (sc.vars.size() > 0 && has(sc, "str") ? var(vars_of(sc, "str")[0]) : slit("r"))}});
    fns.push_back(f);
    return json{{"k", "func"}, {"n", f.n}, {"params", params}, {"ret", f.ret}, {"body", body}};
  }
};

// flatten "seq" pseudo statements
static json flatten(const json& block) {
  json out = json::array();
  for (auto& s : block) {
    if (s.value("k", "") == "seq") { for (auto& x : flatten(s["body"])) out.push_back(x); continue; }
    json c = s;
    for (const char* key : {"then", "else", "body"}) if (c.contains(key) && c[key].is_array()) c[key] = flatten(c[key]);
    if (c.contains("elifs")) for (auto& ei : c["elifs"]) ei["body"] = flatten(ei["body"]);
    if (c.contains("handlers")) for (auto& h : c["handlers"]) h["body"] = flatten(h["body"]);
    out.push_back(c);
  }
  return out;
}

} // namespace

GenProgram gen_program(Rng& r, const GenKnobs& k) {
  G g(r, k); GenProgram p;
  int nu = (int)r.range(0, 2); static const char* un[] = {"MYERR", "E_TWO", "OOPS"};
  for (int i = 0; i < nu; ++i) g.uerrs.push_back(un[i]);
  Scope sc;
  json prelude = json::array();
  if (k.fault_points || k.objects) prelude.push_back(json{{"k", "import"}, {"n", "vf"}});
  auto let = [&](const std::string& n, const std::string& t, json e) { prelude.push_back(json{{"k", "let"}, {"n", n}, {"e", e}}); sc.vars.push_back({n, t}); };
  if (k.fault_points || k.objects) let("v", "obj", json{{"k", "vfnew"}, {"tag", nullptr}, {"t", "obj"}});
  for (int i = 0; i < 3; ++i) let("i" + std::to_string(i), "int", g.ilit(r.range(-3, 9)));
  for (int i = 0; i < 2; ++i) let("b" + std::to_string(i), "bool", g.blit(r.chance(0.5)));
  for (int i = 0; i < 2; ++i) let("s" + std::to_string(i), "str", g.slit(g.rstr()));
  if (k.tables) { let("t0", "tabint", json{{"k", "tab"}, {"n", g.ilit(r.range(0, 4))}, {"e", g.ilit(r.range(0, 9))}, {"t", "tabint"}}); let("t1", "tabint", json{{"k", "tab"}, {"n", g.ilit(r.range(1, 3))}, {"e", g.ilit(r.range(0, 9))}, {"t", "tabint"}}); }
  if (k.tuples) let("u0", "tup", json{{"k", "tup"}, {"es", json::array({g.ilit(r.range(0, 9)), g.slit(g.rstr())})}, {"t", "tup"}});
  json funcs = json::array();
  for (int i = 0; i < k.functions; ++i) funcs.push_back(g.gen_func(i + 1));
  json body = json::array();
  Scope sc0 = sc;
  for (int i = 0; i < k.top_statements; ++i) body.push_back(g.gen_stmt(sc, k.max_depth));
  for (int b = 0; b < k.extra_bodies; ++b) {
    Scope se = sc0; json eb = json::array();
    for (int i = 0; i < k.extra_statements; ++i) eb.push_back(g.gen_stmt(se, k.max_depth));
    p.extra_bodies.push_back(flatten(eb));
  }
  p.ast = json{{"prelude", prelude}, {"funcs", flatten(funcs)}, {"body", flatten(body)}};
  for (auto& f : p.ast["funcs"]) f["body"] = flatten(f["body"]);
  p.fault_points = g.next_pt; p.user_errors = g.uerrs;
  return p;
}

// ------------------------------------------------------------------ shrinking
static void shrink_block(const json& ast, const std::vector<std::string>& path, const json& block, std::vector<json>& out);

static json with_block(const json& ast, const std::vector<std::string>& path, const json& nb) {
  json c = ast; json* p = &c;
  for (auto& key : path) { if (!key.empty() && std::all_of(key.begin(), key.end(), ::isdigit)) p = &(*p)[std::stoul(key)]; else p = &(*p)[key]; }
  *p = nb; return c;
}

static void shrink_block(const json& ast, const std::vector<std::string>& path, const json& block, std::vector<json>& out) {
  if (out.size() > 300) return;
  // remove one statement
  for (size_t i = 0; i < block.size(); ++i) { json nb = block; nb.erase(nb.begin() + i); out.push_back(with_block(ast, path, nb)); }
  // unwrap a structured statement into its body
  for (size_t i = 0; i < block.size(); ++i) {
    const json& s = block[i]; std::string k = s.value("k", "");
    for (const char* key : {"body", "then", "else"}) if (s.contains(key) && s[key].is_array() && k != "func") { json nb = json::array(); for (size_t j = 0; j < block.size(); ++j) { if (j == i) for (auto& x : s[key]) nb.push_back(x); else nb.push_back(block[j]); } out.push_back(with_block(ast, path, nb)); }
  }
  // recurse
  for (size_t i = 0; i < block.size(); ++i) {
    const json& s = block[i];
    for (const char* key : {"body", "then", "else"}) if (s.contains(key) && s[key].is_array()) { auto p = path; p.push_back(std::to_string(i)); p.push_back(key); shrink_block(ast, p, s[key], out); }
    if (s.contains("handlers")) for (size_t h = 0; h < s["handlers"].size(); ++h) {
      { json ns = s; ns["handlers"].erase(ns["handlers"].begin() + h); json nb = block; nb[i] = ns; out.push_back(with_block(ast, path, nb)); }
      auto p = path; p.push_back(std::to_string(i)); p.push_back("handlers"); p.push_back(std::to_string(h)); p.push_back("body"); shrink_block(ast, p, s["handlers"][h]["body"], out);
    }
    if (s.contains("elifs")) for (size_t h = 0; h < s["elifs"].size(); ++h) { auto p = path; p.push_back(std::to_string(i)); p.push_back("elifs"); p.push_back(std::to_string(h)); p.push_back("body"); shrink_block(ast, p, s["elifs"][h]["body"], out); }
  }
}

std::vector<json> shrink_ast(const json& ast) {
  std::vector<json> out;
  for (const char* sec : {"body", "funcs", "prelude"}) if (ast.contains(sec)) shrink_block(ast, {sec}, ast[sec], out);
  return out;
}

} // namespace sim
