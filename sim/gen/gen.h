// Seeded generator of BLOC programs as JSON ASTs, and the AST -> source text printer.
// The AST is the input of the reference interpreter (sim/ref/interp) and of the shrinker;
// the printed text is what the library sees.
//
// Expression nodes:  {"k":"int","v":5} {"k":"bool","v":true} {"k":"str","v":"ab"} {"k":"dec","v":1.5}
//   {"k":"null","t":"int"}                       typed null constructor int()/bool()/str()/num()
//   {"k":"var","n":"i0","t":"int"}
//   {"k":"bin","op":"+","a":E,"b":E,"t":"int"}   {"k":"un","op":"-","a":E,"t":"int"}
//   {"k":"call","f":"f1","args":[E..],"t":"int"} user function
//   {"k":"bi","f":"str","args":[E..],"t":"str"}  built-in function (str, strlen, isnull, typeof, ...)
//   {"k":"mth","m":"count","o":E,"args":[E..],"t":"int"}   type method (at, count, put, insert, delete, concat)
//   {"k":"item","o":E,"i":1,"t":"int"}           tuple item  o@i
//   {"k":"setitem","o":E,"i":1,"e":E,"t":"tup"}  o.set@i(e)
//   {"k":"tab","n":E,"e":E,"t":"tabint"}         tab(n, e)
//   {"k":"tup","es":[E..],"t":"tup"}
//   {"k":"vfnew","tag":E|null,"t":"obj"}         vf() / vf(tag)
//   {"k":"pt","id":7,"m":"pt","recv":E,"e":E,"t":"int"}   fault point  recv.pt(7, e)
//   {"k":"vfm","m":"sum","recv":E,"args":[..],"t":"int"}  other vf methods (id, tag, get, set, me, echo, sum)
//   {"k":"err","i":1,"t":"str"}                  error@i (inside handlers)
// Statement nodes:
//   {"k":"let","n":"i0","e":E}  {"k":"print","es":[E..]} {"k":"put","es":[E..]} {"k":"do","e":E} {"k":"nop"}
//   {"k":"if","c":E,"then":[S..],"elifs":[{"c":E,"body":[S..]}],"else":[S..]}
//   {"k":"while","c":E,"body":[S..]}
//   {"k":"for","n":"i","a":E,"b":E,"step":E|null,"dir":""|"asc"|"desc","body":[S..]}
//   {"k":"forall","n":"e","o":E,"dir":"","body":[S..]}
//   {"k":"break"} {"k":"continue"} {"k":"return","e":E|null} {"k":"raise","n":"MYERR"}
//   {"k":"begin","body":[S..],"handlers":[{"n":"OTHERS","body":[S..]}]}
//   {"k":"func","n":"f1","params":[{"n":"a","t":"int"}],"ret":"int","body":[S..]}
#pragma once
#include "core/profile.h"
#include <string>
#include <vector>

namespace sim {

struct GenKnobs {
  int max_depth = 3;         // nesting depth of control structures
  int top_statements = 12;   // statements at top level (besides prelude and functions)
  int functions = 2;         // number of user functions
  bool fault_points = true;  // vf fault points in expressions
  bool natural_errors = true; // 1/0, raise, t.at(99) ...
  bool exceptions = true;    // begin/exception blocks
  bool tables = true;
  bool tuples = true;
  bool objects = true;       // vf objects in variables
  bool decimals = false;
  bool recursion = true;
  bool while_loops = true;
  bool forall_loops = true;
  bool returns = true;       // top-level return statements
  double fault_point_rate = 0.15;
  double natural_error_rate = 0.05;
  int loop_max_iter = 4;
  int extra_bodies = 0;      // further independent top-level bodies over the same prelude and functions (probe programs)
  int extra_statements = 5;  // statements per extra body
};

struct GenProgram {
  json ast;                  // {"prelude":[S..], "funcs":[S..], "body":[S..]}
  int fault_points = 0;      // number of fault point ids used (1..fault_points)
  std::vector<std::string> user_errors; // names usable in raise / when
  std::vector<json> extra_bodies;       // each an array of statements valid after prelude+funcs
};

GenProgram gen_program(Rng& r, const GenKnobs& k);

// all statements in program order: prelude, funcs, body
std::vector<json> program_statements(const json& ast);
// source text (one statement per line, indented)
std::string print_program(const json& ast);
std::string print_statements(const std::vector<json>& stmts);
std::string print_stmt(const json& s, int indent = 0);
std::string print_expr(const json& e);

// generic AST shrinking: candidate ASTs with one statement removed / one block unwrapped / one expression simplified
std::vector<json> shrink_ast(const json& ast);

// BLOC string literal for arbitrary bytes restricted to what the generator emits
std::string quote_str(const std::string& s);

} // namespace sim
