// Stream damage of a source text at a token position (the fault of C11, C15 and C01).
#pragma once
#include "core/rng.h"
#include "core/util.h"
#include "ref/reflex.h"
#include <string>

namespace sim {

// kind: 0 truncate, 1 delete token, 2 duplicate, 3 replace, 4 swap with next, 5 insert structural word,
// 6 EOF inside a string, 7 EOF inside a comment, 8 flip one byte, 9 splice: replace the tail by the tail of `other`, 10 empty a loop body
inline std::string damage_text(Rng& r, const std::string& q, int kind, size_t k, std::string& desc, const std::string& other = "") {
  RefLexResult lx = reflex(q);
  if (lx.tokens.empty()) { desc = "empty"; return q + " end;"; }
  k %= lx.tokens.size();
  const RefToken& t = lx.tokens[k];
  if (kind == 10) { // empty the body of the first loop at or after token k (every statement between LOOP and its END LOOP is removed)
    auto low = [](std::string w) { for (auto& c : w) c = (char)tolower((unsigned char)c); return w; };
    for (size_t i = k; i < lx.tokens.size(); ++i) if (low(lx.tokens[i].text) == "loop" && (i == 0 || low(lx.tokens[i - 1].text) != "end")) {
      int depth = 1;
      for (size_t j = i + 1; j + 1 < lx.tokens.size(); ++j) {
        std::string w = low(lx.tokens[j].text), w2 = low(lx.tokens[j + 1].text);
        if (w == "end" && w2 == "loop") { if (--depth == 0) { desc = "empty the loop body after token #" + std::to_string(i); return q.substr(0, lx.tokens[i].end) + " " + q.substr(lx.tokens[j].pos); } ++j; }
        else if (w == "loop") ++depth;
      }
      break; }
    kind = 1;   // no loop behind token k: delete the token instead
  }
  switch (kind) {
  case 0: desc = "truncate before token #" + std::to_string(k) + " '" + printable(t.text, 20) + "'"; return q.substr(0, t.pos);
  case 1: desc = "delete token #" + std::to_string(k) + " '" + printable(t.text, 20) + "'"; return q.substr(0, t.pos) + q.substr(t.end);
  case 2: desc = "duplicate token #" + std::to_string(k) + " '" + printable(t.text, 20) + "'"; return q.substr(0, t.end) + " " + t.text + q.substr(t.end);
  case 3: { static const char* repl[] = {"\"str\"", "42", "1.5", "end", "loop", "then", "(", ")", "@", "xx9", "=", ";", "function", "begin", "exception", "when", "tab", "true", "null", ".", ",", "0x", "9999999999999999999999"}; std::string w = repl[r.below(23)]; desc = "replace token #" + std::to_string(k) + " '" + printable(t.text, 20) + "' by '" + w + "'"; return q.substr(0, t.pos) + w + q.substr(t.end); }
  case 4: { if (k + 1 >= lx.tokens.size()) { desc = "truncate at end"; return q.substr(0, t.pos); } const RefToken& u = lx.tokens[k + 1]; desc = "swap tokens #" + std::to_string(k) + " and next"; return q.substr(0, t.pos) + u.text + " " + t.text + q.substr(u.end); }
  case 5: { static const char* ins[] = {"end;", "end loop;", "end if;", "begin", ")", "(", "exception", "when others then", "loop", "return;;", "else", "elsif", "@1", ".at(", "for x in"}; std::string w = ins[r.below(15)]; desc = "insert '" + w + "' before token #" + std::to_string(k); return q.substr(0, t.pos) + w + " " + q.substr(t.pos); }
  case 6: desc = "EOF inside a string after token #" + std::to_string(k); return q.substr(0, t.end) + " s0 = \"unterminated";
  case 7: desc = "EOF inside a comment after token #" + std::to_string(k); return q.substr(0, t.end) + " /* unterminated";
  case 8: { std::string o = q; size_t p = t.pos + r.below(t.end - t.pos ? t.end - t.pos : 1); if (p < o.size()) { unsigned char c = (unsigned char)(o[p] ^ (1u << r.below(7))); if (c == 0) c = '?'; o[p] = (char)c; } desc = "flip a bit in token #" + std::to_string(k); return o; }
  default: { RefLexResult lo = reflex(other); if (lo.tokens.empty()) { desc = "truncate (no splice partner)"; return q.substr(0, t.pos); } const RefToken& u = lo.tokens[r.below(lo.tokens.size())]; desc = "splice the tail of another program at token #" + std::to_string(k); return q.substr(0, t.pos) + other.substr(u.pos); }
  }
}

} // namespace sim
