// Seeded PRNG: one integer decides everything (splitmix64 + xoshiro256**).
#pragma once
#include <cstdint>
#include <string>
#include <vector>
#include <cassert>

namespace sim {

inline uint64_t splitmix64(uint64_t& x) {
  uint64_t z = (x += 0x9e3779b97f4a7c15ULL);
  z = (z ^ (z >> 30)) * 0xbf58476d1ce4e5b9ULL;
  z = (z ^ (z >> 27)) * 0x94d049bb133111ebULL;
  return z ^ (z >> 31);
}

inline uint64_t fnv1a(const void* p, size_t n, uint64_t h = 0xcbf29ce484222325ULL) {
  const unsigned char* s = (const unsigned char*)p;
  for (size_t i = 0; i < n; ++i) { h ^= s[i]; h *= 0x100000001b3ULL; }
  return h;
}
inline uint64_t fnv1a(const std::string& s, uint64_t h = 0xcbf29ce484222325ULL) {
  return fnv1a(s.data(), s.size(), h);
}

// h(seed, label, n): independent sub-stream seeds
inline uint64_t subseed(uint64_t seed, const std::string& label, uint64_t n = 0) {
  uint64_t x = seed ^ fnv1a(label) ^ (n * 0x9e3779b97f4a7c15ULL + 0x632be59bd9b4e019ULL);
  uint64_t a = splitmix64(x);
  uint64_t b = splitmix64(x);
  return a ^ (b << 1);
}

class Rng {
  uint64_t s[4];
  static uint64_t rotl(uint64_t x, int k) { return (x << k) | (x >> (64 - k)); }
public:
  explicit Rng(uint64_t seed = 1) { reseed(seed); }
  void reseed(uint64_t seed) { uint64_t x = seed; for (auto& v : s) v = splitmix64(x); }
  uint64_t next() {
    uint64_t r = rotl(s[1] * 5, 7) * 9, t = s[1] << 17;
    s[2] ^= s[0]; s[3] ^= s[1]; s[1] ^= s[2]; s[0] ^= s[3]; s[2] ^= t; s[3] = rotl(s[3], 45);
    return r;
  }
  // uniform in [0, n)
  uint64_t below(uint64_t n) { assert(n > 0); return next() % n; }
  // uniform in [lo, hi]
  int64_t range(int64_t lo, int64_t hi) { assert(hi >= lo); return lo + (int64_t)below((uint64_t)(hi - lo) + 1); }
  bool chance(double p) { return (next() >> 11) * (1.0 / 9007199254740992.0) < p; }
  double unit() { return (next() >> 11) * (1.0 / 9007199254740992.0); }
  template <class T> const T& pick(const std::vector<T>& v) { assert(!v.empty()); return v[below(v.size())]; }
  template <class T> T& pick(std::vector<T>& v) { assert(!v.empty()); return v[below(v.size())]; }
  // weighted index
  size_t weighted(const std::vector<double>& w) {
    double t = 0; for (double x : w) t += x;
    double r = unit() * t;
    for (size_t i = 0; i < w.size(); ++i) { if (r < w[i]) return i; r -= w[i]; }
    return w.size() - 1;
  }
};

} // namespace sim
