// blocsim execseq f1 f2 ...: run several texts one after another in the same context
#include "oracle/world.h"
#include "oracle/dump.h"
#include <cstdio>
#include <fstream>
#include <sstream>
#include <unistd.h>
int sim_dev_execseq(int n, char** files) {
  bloc::Context ctx(STDOUT_FILENO, STDERR_FILENO); ctx.trusted(true);
  std::vector<bloc::Executable*> keep;
  for (int i = 0; i < n; ++i) {
    std::ifstream f(files[i]); std::stringstream ss; ss << f.rdbuf();
    bloc::Executable* exe = nullptr;
    sim::Outcome o = sim::parse_text(ctx, ss.str(), exe);
    if (!o.ok()) { printf("[%s] => %s: %s\n", files[i], o.str().c_str(), o.text.c_str()); continue; }
    ctx.returnCondition(false);
    o = sim::run_exe(exe); fflush(ctx.ctxout());
    printf("[%s] => %s %s\n", files[i], o.str().c_str(), o.text.c_str());
    keep.push_back(exe);
  }
  printf("%s", sim::dump_context(ctx).c_str());
  for (auto& l : sim::dump_functors(ctx)) printf("fn %s\n", l.c_str());
  printf("residue: '%s'\n", sim::check_residue(ctx).c_str());
  for (auto e : keep) delete e;
  return 0;
}
