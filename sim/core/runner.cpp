// blocsim: seeded run driver, worker pool, crash capture, determinism gate,
// minimisation, known-findings matching, evidence writer.
#include "profile.h"
#include <algorithm>
#include <chrono>
#include <cerrno>
#include <csignal>
#include <cstdio>
#include <cstdlib>
#include <cstring>
#include <fstream>
#include <iostream>
#include <regex>
#include <set>
#include <sstream>
#include <dirent.h>
#include <fcntl.h>
#include <poll.h>
#include <sys/mman.h>
#include <sys/resource.h>
#include <sys/stat.h>
#include <sys/wait.h>
#include <unistd.h>

namespace sim {

static std::vector<Profile*>* g_profiles = nullptr;
std::vector<Profile*>& all_profiles() { if (!g_profiles) g_profiles = new std::vector<Profile*>(); return *g_profiles; }
void register_profile(Profile* p) { all_profiles().push_back(p); }
Profile* find_profile(const std::string& id) {
  for (Profile* p : all_profiles()) if (id == p->id()) return p;
  return nullptr;
}
#ifndef SIM_FLAVOUR
#define SIM_FLAVOUR "plain"
#endif
const char* flavour() { return SIM_FLAVOUR; }
static std::string g_bindir;
const std::string& bindir() { return g_bindir; }

} // namespace sim

using namespace sim;

// ---- sanitizer defaults (non-inline so they are emitted) -------------------
extern "C" {
__attribute__((used, visibility("default"))) const char* __asan_default_options() {
  return "exitcode=77:detect_leaks=1:leak_check_at_exit=0:abort_on_error=0:handle_sigfpe=1:handle_segv=1:"
         "detect_stack_use_after_return=0:allocator_may_return_null=1:max_allocation_size_mb=512:"
         "print_summary=1:symbolize=1:detect_odr_violation=0";
}
__attribute__((used, visibility("default"))) const char* __ubsan_default_options() {
  // ThreadSanitizer reads the UBSan flags as common flags: keep them away from the tsan flavour
  if (SIM_FLAVOUR[0] == 't') return "";
  return "print_stacktrace=0:halt_on_error=1:exitcode=77:print_summary=1";
}
__attribute__((used, visibility("default"))) const char* __tsan_default_options() {
  return "exitcode=0:halt_on_error=0:report_signal_unsafe=0:second_deadlock_stack=0:history_size=4";
}
__attribute__((used, visibility("default"))) const char* __lsan_default_options() {
  return "exitcode=0:print_suppressions=0";
}
}

int sim_dev_exec(const std::string& text, bool dump);
int sim_dev_genprog(uint64_t seed, int count);
int sim_dev_execseq(int n, char** files);
int sim_dev_find(uint64_t seed, int count, const std::string& want);

static double now_s() {
  using namespace std::chrono;
  return duration<double>(steady_clock::now().time_since_epoch()).count();
}

static std::string read_file(const std::string& p) {
  std::ifstream f(p, std::ios::binary); std::stringstream ss; ss << f.rdbuf(); return ss.str();
}
static void write_file(const std::string& p, const std::string& s) {
  std::ofstream f(p, std::ios::binary | std::ios::trunc); f << s;
}
static void mkdirs(const std::string& p) {
  std::string cur;
  for (size_t i = 0; i <= p.size(); ++i) {
    if (i == p.size() || p[i] == '/') { if (!cur.empty()) ::mkdir(cur.c_str(), 0777); }
    if (i < p.size()) cur.push_back(p[i]);
  }
}
static std::string hex64(uint64_t v) { char b[32]; snprintf(b, sizeof b, "%016llx", (unsigned long long)v); return b; }

// ---- crash classification from sanitizer output -----------------------------
static std::string classify_stderr(const std::string& err, int status) {
  // SUMMARY: AddressSanitizer: heap-use-after-free /repo/blocc/x.h:168:33 in bloc::F::g()
  std::string kind, where;
  size_t p = err.find("SUMMARY: ");
  if (p != std::string::npos) {
    size_t e = err.find('\n', p);
    std::string line = err.substr(p + 9, e == std::string::npos ? std::string::npos : e - p - 9);
    std::smatch m;
    static const std::regex re("^(\\w+): (\\S+)(?: (\\S+))?(?: in (.*))?$");
    if (std::regex_match(line, m, re)) {
      kind = m[1].str() + ":" + m[2].str();
      std::string file = m[3].str(), fn = m[4].str();
      size_t c = file.find(':'); if (c != std::string::npos) file = file.substr(0, c);
      size_t s = file.rfind('/'); if (s != std::string::npos) file = file.substr(s + 1);
      size_t par = fn.find('('); if (par != std::string::npos) fn = fn.substr(0, par);
      where = file + (fn.empty() ? "" : ":" + fn);
      if (m[2].str() == "undefined-behavior") {
        // add the UBSan message kind ("signed integer overflow", ...)
        size_t r = err.find("runtime error: ");
        if (r != std::string::npos) {
          std::string msg = err.substr(r + 15, err.find('\n', r) - r - 15);
          std::string k;
          for (char ch : msg) { if (isdigit((unsigned char)ch) || ch == ':' ) break; k.push_back(ch == ' ' ? '-' : ch); }
          while (!k.empty() && k.back() == '-') k.pop_back();
          kind += ":" + k;
        }
      }
    } else {
      // e.g. "AddressSanitizer: out-of-memory (/path/blocsim+0x57d43d) (BuildId: ...) in operator new(unsigned long)": keep only what is stable across builds
      kind = std::regex_replace(line, std::regex(" ?\\([^)]*\\)"), "");
      for (auto& ch : kind) if (ch == ' ') ch = '-';
      // the innermost frame inside the repository names the place
      size_t f = err.find(" /repo/"); if (f != std::string::npos) { size_t fe = err.find_first_of(":\n", f + 7); std::string file = err.substr(f + 1, fe - f - 1); size_t sl = file.rfind('/'); where = sl == std::string::npos ? file : file.substr(sl + 1); }
    }
  } else if (err.find("terminate called") != std::string::npos || err.find("SIM-TERMINATE") != std::string::npos) {
    kind = "terminate";
    size_t q = err.find("SIM-TERMINATE ");
    if (q != std::string::npos) where = err.substr(q + 14, err.find('\n', q) - q - 14);
  }
  if (kind.empty()) {
    if (WIFSIGNALED(status)) kind = std::string("signal:") + strsignal(WTERMSIG(status));
    else kind = "exit:" + std::to_string(WEXITSTATUS(status));
  }
  return "crash/" + kind + (where.empty() ? "" : "@" + where);
}

// ---- isolated execution of one plan in a forked child ------------------------
static ExecResult run_isolated(Profile* prof, const json& plan, int timeout_s, std::string* errout = nullptr) {
  int pfd[2]; if (pipe(pfd) != 0) { perror("pipe"); exit(2); }
  int efd = memfd_create("sim-stderr", 0);
  fflush(stdout); fflush(stderr);
  pid_t pid = fork();
  if (pid < 0) { perror("fork"); exit(2); }
  if (pid == 0) {
    close(pfd[0]);
    dup2(efd, 2);
    signal(SIGALRM, SIG_DFL);
    alarm(timeout_s);
    ExecResult r;
    try { r = prof->execute(plan); }
    catch (std::exception& e) { r.vclass = "M/harness-exception"; r.message = e.what(); }
    catch (...) { r.vclass = "M/harness-exception"; r.message = "unknown"; }
    std::string s = r.to_json().dump(-1, ' ', false, json::error_handler_t::replace);
    size_t off = 0; while (off < s.size()) { ssize_t n = write(pfd[1], s.data() + off, s.size() - off); if (n <= 0) break; off += n; }
    close(pfd[1]);
    fflush(nullptr);
    _exit(0);
  }
  close(pfd[1]);
  std::string out; char buf[65536]; ssize_t n;
  while ((n = read(pfd[0], buf, sizeof buf)) > 0) out.append(buf, n);
  close(pfd[0]);
  int status = 0; waitpid(pid, &status, 0);
  std::string err;
  { off_t sz = lseek(efd, 0, SEEK_END); lseek(efd, 0, SEEK_SET); if (sz > 0) { err.resize(sz); ssize_t k = read(efd, &err[0], sz); if (k < 0) err.clear(); else err.resize(k);} }
  close(efd);
  if (errout) *errout = err;
  ExecResult r;
  if (WIFEXITED(status) && WEXITSTATUS(status) == 0 && !out.empty()) {
    try { r = ExecResult::from_json(json::parse(out)); }
    catch (...) { r.vclass = "M/harness-badresult"; r.message = out.substr(0, 200); }
    return r;
  }
  if (WIFSIGNALED(status) && WTERMSIG(status) == SIGALRM) {
    r.vclass = "hang/wallclock"; r.message = "no result within " + std::to_string(timeout_s) + " s";
    return r;
  }
  r.vclass = classify_stderr(err, status);
  // keep the interesting tail of the sanitizer output
  size_t p = err.find("ERROR: "); if (p == std::string::npos) p = err.find("runtime error"); if (p == std::string::npos) p = 0;
  r.message = err.substr(p, 1500);
  r.trace_hash = fnv1a(r.vclass);
  return r;
}

// ---- known findings -------------------------------------------------------------
struct Finding { std::string id, property, status, cls, msg, what; };
static std::vector<Finding> load_findings(const std::string& path, const std::string& prop) {
  std::vector<Finding> v; std::ifstream f(path); std::string line;
  while (std::getline(f, line)) {
    if (line.empty() || line[0] == '#') continue;
    try {
      json j = json::parse(line);
      if (j.value("property", "") != prop) continue;
      Finding k; k.id = j.value("id", ""); k.property = prop; k.status = j.value("status", "open");
      k.cls = j.value("class", ""); k.msg = j.value("message", ""); k.what = j.value("what", "");
      v.push_back(k);
    } catch (...) { fprintf(stderr, "bad line in %s: %s\n", path.c_str(), line.c_str()); exit(2); }
  }
  return v;
}
static const Finding* match_finding(const std::vector<Finding>& fs, const ExecResult& r) {
  for (const Finding& f : fs) {
    if (f.status != "open") continue;   // fixed entries suppress nothing
    try {
      if (!std::regex_search(r.vclass, std::regex(f.cls))) continue;
      if (!f.msg.empty() && !std::regex_search(r.message, std::regex(f.msg))) continue;
      return &f;
    } catch (std::regex_error&) { fprintf(stderr, "bad regex in finding %s\n", f.id.c_str()); exit(2); }
  }
  return nullptr;
}

// ---- minimisation -------------------------------------------------------------
static json minimise(Profile* prof, json plan, const std::string& vclass, int timeout_s, long* reruns) {
  double t0 = now_s(); long n = 0; bool progress = true;
  while (progress && n < 200 && now_s() - t0 < 45) {
    progress = false;
    std::vector<json> cands = prof->shrink(plan);
    for (json& c : cands) {
      if (n >= 200 || now_s() - t0 > 45) break;
      ++n;
      ExecResult r = run_isolated(prof, c, timeout_s);
      if (r.vclass == vclass) { plan = c; progress = true; break; }
    }
  }
  if (reruns) *reruns = n;
  return plan;
}

// ---- worker ---------------------------------------------------------------------
struct Opts {
  std::string prop, tier = "quick", evidence, outdir = "out", findings = "known_findings.jsonl", corpus = "corpus";
  uint64_t seed = 1; int workers = 16; long runs = -1; double max_wall = 0; bool keep_going = false;
};

static void worker_loop(Profile* prof, const Opts& o, long first, long stride, long total, int wfd, double deadline) {
  FILE* out = fdopen(wfd, "w");
  for (long i = first; i < total; i += stride) {
    if (deadline > 0 && now_s() > deadline) break;
    fprintf(out, "S %ld\n", i); fflush(out);
    json plan = prof->generate(o.seed, (uint64_t)i, o.tier);
    ExecResult r;
    if (prof->fork_per_run()) r = run_isolated(prof, plan, prof->watchdog_s());
    else {
      alarm(prof->watchdog_s());
      try { r = prof->execute(plan); }
      catch (std::exception& e) { r.vclass = "M/harness-exception"; r.message = e.what(); }
      catch (...) { r.vclass = "M/harness-exception"; r.message = "unknown"; }
      alarm(0);
    }
    std::string s = r.to_json().dump(-1, ' ', false, json::error_handler_t::replace);
    fprintf(out, "R %ld %s\n", i, s.c_str()); fflush(out);
  }
  fprintf(out, "D\n"); fflush(out);
  fflush(nullptr);
  _exit(0);
}

struct Lane { pid_t pid = -1; int fd = -1; std::string buf; long cur = -1; long next = 0; bool done = false; };

static void usage() {
  fprintf(stderr,
    "usage: blocsim run <PROP> [--tier quick|thorough] [--seed N] [--workers N] [--runs N] [--evidence F]\n"
    "                         [--out DIR] [--findings F] [--corpus DIR] [--max-wall S]\n"
    "       blocsim replay <plan.json>\n"
    "       blocsim gen <PROP> [--seed N] [--run K] [--tier T]\n"
    "       blocsim hashes <PROP> [--seed N] [--runs N] [--workers N] [--tier T]   (determinism proof helper)\n"
    "       blocsim list\n");
  exit(2);
}

static int cmd_replay(const std::string& path) {
  json plan;
  try { plan = json::parse(read_file(path)); } catch (std::exception& e) { fprintf(stderr, "cannot parse %s: %s\n", path.c_str(), e.what()); return 2; }
  Profile* prof = find_profile(plan.value("property", ""));
  if (!prof) { fprintf(stderr, "unknown property in plan\n"); return 2; }
  std::string err;
  ExecResult r = run_isolated(prof, plan, prof->watchdog_s() * 2, &err);
  json expect = plan.value("expect", json::object());
  if (getenv("BLOCSIM_SHOW_STDERR")) printf("---- stderr of the run ----\n%s\n----\n", err.c_str());
  printf("result: class=%s hash=%s\n", r.vclass.empty() ? "(none)" : r.vclass.c_str(), hex64(r.trace_hash).c_str());
  if (!r.message.empty()) printf("message: %s\n", r.message.c_str());
  if (!r.vclass.empty()) {
    bool same = expect.value("violation", "") == r.vclass;
    printf("%s\n", same ? "REPRODUCED" : (expect.contains("violation") ? "DIFFERENT-VIOLATION" : "VIOLATION-FOUND"));
    printf("VIOLATION property=%s replay=%s\n", prof->id(), path.c_str());
    return 1;
  }
  if (expect.contains("violation")) printf("NOT-REPRODUCED (expected %s)\n", expect["violation"].get<std::string>().c_str());
  return 0;
}

static std::vector<std::string> list_dir(const std::string& d, const std::string& suffix) {
  std::vector<std::string> v; DIR* dir = opendir(d.c_str()); if (!dir) return v;
  while (dirent* e = readdir(dir)) { std::string n = e->d_name; if (n.size() > suffix.size() && n.compare(n.size() - suffix.size(), suffix.size(), suffix) == 0) v.push_back(d + "/" + n); }
  closedir(dir); std::sort(v.begin(), v.end()); return v;
}

int main(int argc, char** argv) {
  {
    char self[4096]; ssize_t n = readlink("/proc/self/exe", self, sizeof self - 1); if (n < 0) n = 0; self[n] = 0;
    std::string s(self); size_t p = s.rfind('/'); g_bindir = p == std::string::npos ? "." : s.substr(0, p);
    // re-exec once with the sanitizer options and the module path in the environment (the runtimes read
    // them before main; the *_default_options hooks above are kept as a second line of defence)
    if (!getenv("BLOCSIM_REEXEC")) {
      std::string ld = g_bindir; const char* old = getenv("LD_LIBRARY_PATH"); if (old && *old) ld += std::string(":") + old;
      setenv("LD_LIBRARY_PATH", ld.c_str(), 1);
      setenv("ASAN_OPTIONS", __asan_default_options(), 1);
      setenv("UBSAN_OPTIONS", __ubsan_default_options(), 1);
      setenv("TSAN_OPTIONS", __tsan_default_options(), 1);
      setenv("LSAN_OPTIONS", __lsan_default_options(), 1);
      setenv("BLOCSIM_REEXEC", "1", 1);
      execv(self, argv);
      perror("execv"); return 2;
    }
  }
  { struct rlimit rl; if (getrlimit(RLIMIT_STACK, &rl) == 0) { rl.rlim_cur = rl.rlim_max == RLIM_INFINITY ? (256UL << 20) : std::min<rlim_t>(rl.rlim_max, 256UL << 20); setrlimit(RLIMIT_STACK, &rl); } }
  { struct rlimit rl = {0, 0}; setrlimit(RLIMIT_CORE, &rl); }
  signal(SIGPIPE, SIG_IGN);
  if (argc < 2) usage();
  std::string cmd = argv[1];
  if (cmd == "list") { for (Profile* p : all_profiles()) printf("%s\n", p->id()); return 0; }
  if (cmd == "replay") { if (argc < 3) usage(); return cmd_replay(argv[2]); }
  if (cmd == "genprog") { return sim_dev_genprog(argc > 2 ? strtoull(argv[2], nullptr, 10) : 1, argc > 3 ? atoi(argv[3]) : 1); }
  if (cmd == "genfind") { return sim_dev_find(strtoull(argv[2], nullptr, 10), atoi(argv[3]), argv[4]); }
  if (cmd == "execseq") { return sim_dev_execseq(argc - 2, argv + 2); }
  if (cmd == "exec") { if (argc < 3) usage(); return sim_dev_exec(read_file(argv[2]), argc > 3); }
  if (argc < 3) usage();
  Opts o; o.prop = argv[2]; long genrun = 0;
  if (const char* e = getenv("VERIF_SEED")) o.seed = strtoull(e, nullptr, 10);
  if (const char* e = getenv("VERIF_TIER")) { if (*e) o.tier = e; }
  for (int i = 3; i < argc; ++i) {
    std::string a = argv[i]; auto val = [&]() -> std::string { if (i + 1 >= argc) usage(); return argv[++i]; };
    if (a == "--tier") o.tier = val(); else if (a == "--seed") o.seed = strtoull(val().c_str(), nullptr, 10);
    else if (a == "--workers") o.workers = atoi(val().c_str()); else if (a == "--runs") o.runs = atol(val().c_str());
    else if (a == "--evidence") o.evidence = val(); else if (a == "--out") o.outdir = val();
    else if (a == "--findings") o.findings = val(); else if (a == "--corpus") o.corpus = val();
    else if (a == "--max-wall") o.max_wall = atof(val().c_str()); else if (a == "--run") genrun = atol(val().c_str());
    else usage();
  }
  Profile* prof = find_profile(o.prop);
  if (!prof) { fprintf(stderr, "unknown property %s\n", o.prop.c_str()); return 2; }
  if (cmd == "gen") {
    json plan = prof->generate(o.seed, genrun, o.tier);
    printf("%s\n", plan.dump(1, ' ', false, json::error_handler_t::replace).c_str()); return 0;
  }
  long total = o.runs >= 0 ? o.runs : prof->budget(o.tier);
  if (o.workers < 1) o.workers = 1;

  if (cmd == "hashes") {
    // print "run hash class" for every run, sorted by run: used by the determinism proof
    std::vector<Lane> lanes(o.workers); std::map<long, std::string> lines;
    for (int w = 0; w < o.workers; ++w) {
      int p[2]; if (pipe(p)) return 2; fflush(nullptr); pid_t pid = fork();
      if (pid == 0) { close(p[0]); int dn = open("/dev/null", O_WRONLY); dup2(dn, 2); worker_loop(prof, o, w, o.workers, total, p[1], 0); }
      close(p[1]); lanes[w].pid = pid; lanes[w].fd = p[0];
    }
    for (auto& l : lanes) {
      FILE* f = fdopen(l.fd, "r"); char* line = nullptr; size_t cap = 0;
      while (getline(&line, &cap, f) > 0) { if (line[0] != 'R') continue; long run; int off = 0; sscanf(line, "R %ld %n", &run, &off); json j = json::parse(line + off); lines[run] = hex64(j.value("hash", (uint64_t)0)) + " " + j.value("vclass", ""); }
      free(line); fclose(f); int st; waitpid(l.pid, &st, 0);
    }
    for (auto& kv : lines) printf("%ld %s\n", kv.first, kv.second.c_str());
    return 0;
  }
  if (cmd != "run") usage();

  double t0 = now_s();
  mkdirs(o.outdir + "/violations"); mkdirs(o.outdir + "/logs");
  std::vector<Finding> findings = load_findings(o.findings, o.prop);
  int harness_fault = 0;
  long evaluations = 0, faulty_runs = 0, faultfree_runs = 0, total_steps = 0; double sim_time = 0;
  std::set<uint64_t> distinct_nt, distinct_all;
  std::map<std::string, long> faults, probes;
  struct Cand { long run; json plan; ExecResult res; std::string origin; };
  std::vector<Cand> cands;
  std::vector<std::string> known_printed; std::set<std::string> known_ids_printed;
  long violations = 0;

  auto account = [&](const ExecResult& r) {
    ++evaluations; total_steps += r.steps; sim_time += r.sim_time_s;
    if (r.faulty) ++faulty_runs; else ++faultfree_runs;
    distinct_all.insert(r.trace_hash);
    if (r.nontrivial) distinct_nt.insert(r.trace_hash);
    for (auto& kv : r.faults) faults[kv.first] += kv.second;
    for (auto& kv : r.probes) probes[kv.first] += kv.second;
  };

  // 1. corpus: hand-written edge plans, regression plans of fixed defects, reproducers of open findings
  long corpus_runs = 0;
  for (const std::string& f : list_dir(o.corpus + "/" + o.prop, ".plan.json")) {
    json plan;
    try { plan = json::parse(read_file(f)); } catch (std::exception& e) { fprintf(stderr, "corpus file %s: %s\n", f.c_str(), e.what()); return 2; }
    ExecResult r = run_isolated(prof, plan, prof->watchdog_s());
    ++corpus_runs; account(r);
    std::string kf = plan.value("known_finding", "");
    if (!kf.empty()) {
      const Finding* fd = nullptr; for (auto& k : findings) if (k.id == kf) fd = &k;
      if (fd && fd->status == "open") {
        if (!r.vclass.empty() && match_finding(findings, r) == fd) {
          if (known_ids_printed.insert(fd->id).second) printf("KNOWN-FINDING: property=%s %s [%s]\n", o.prop.c_str(), fd->what.c_str(), fd->id.c_str());
        } else if (r.vclass.empty()) {
          printf("note: reproducer of open finding %s no longer fails (%s)\n", kf.c_str(), f.c_str());
        } else cands.push_back({-1, plan, r, f});
        continue;
      }
    }
    if (!r.vclass.empty()) cands.push_back({-1, plan, r, f});
  }

  // 2. generated runs on the worker pool
  double deadline = o.max_wall > 0 ? t0 + o.max_wall : 0;
  std::vector<Lane> lanes(o.workers);
  auto spawn = [&](int w) {
    Lane& l = lanes[w];
    if (l.next >= total) { l.done = true; l.fd = -1; return; }
    int p[2]; if (pipe(p)) { perror("pipe"); exit(2); }
    fflush(nullptr);
    pid_t pid = fork();
    if (pid < 0) { perror("fork"); exit(2); }
    if (pid == 0) {
      close(p[0]);
      for (auto& x : lanes) if (x.fd >= 0) close(x.fd);
      std::string lg = o.outdir + "/logs/" + o.prop + "-w" + std::to_string(w) + ".log";
      int lf = open(lg.c_str(), O_WRONLY | O_CREAT | O_APPEND, 0666); if (lf >= 0) { dup2(lf, 2); close(lf); }
      worker_loop(prof, o, l.next, o.workers, total, p[1], deadline);
    }
    close(p[1]); l.pid = pid; l.fd = p[0]; l.buf.clear(); l.cur = -1;
  };
  for (int w = 0; w < o.workers; ++w) { lanes[w].next = w; unlink((o.outdir + "/logs/" + o.prop + "-w" + std::to_string(w) + ".log").c_str()); spawn(w); }
  std::vector<json> samples; std::map<long, uint64_t> recheck_hash;
  long recheck_every = std::max<long>(1, total / 24);
  for (;;) {
    std::vector<pollfd> pf; std::vector<int> idx;
    for (int w = 0; w < o.workers; ++w) if (!lanes[w].done && lanes[w].fd >= 0) { pf.push_back({lanes[w].fd, POLLIN, 0}); idx.push_back(w); }
    if (pf.empty()) break;
    int pr = poll(pf.data(), pf.size(), 1000); if (pr < 0 && errno != EINTR) { perror("poll"); return 2; }
    for (size_t k = 0; k < pf.size(); ++k) {
      if (!(pf[k].revents & (POLLIN | POLLHUP | POLLERR))) continue;
      Lane& l = lanes[idx[k]]; char buf[65536]; ssize_t n = read(l.fd, buf, sizeof buf);
      if (n > 0) {
        l.buf.append(buf, n); size_t pos;
        while ((pos = l.buf.find('\n')) != std::string::npos) {
          std::string line = l.buf.substr(0, pos); l.buf.erase(0, pos + 1);
          if (line[0] == 'S') { l.cur = atol(line.c_str() + 2); }
          else if (line[0] == 'R') {
            long run; int off = 0; sscanf(line.c_str(), "R %ld %n", &run, &off);
            ExecResult r;
            try { r = ExecResult::from_json(json::parse(line.c_str() + off)); } catch (...) { r.vclass = "M/harness-badresult"; }
            account(r); l.cur = -1; l.next = run + o.workers;
            if (run % recheck_every == 0) recheck_hash[run] = r.trace_hash;
            if (!r.vclass.empty()) cands.push_back({run, json(), r, "run " + std::to_string(run)});
          } else if (line[0] == 'D') { l.done = true; }
        }
      } else {
        int st = 0; waitpid(l.pid, &st, 0); close(l.fd); l.fd = -1;
        if (l.done) continue;
        if (l.cur >= 0) {
          // worker died inside run l.cur
          ExecResult r; r.vclass = "crash/worker"; r.message = "worker died in run " + std::to_string(l.cur);
          ++evaluations; cands.push_back({l.cur, json(), r, "run " + std::to_string(l.cur) + " (worker died)"});
          l.next = l.cur + o.workers;
          spawn(idx[k]);
        } else if (deadline > 0 && now_s() > deadline) { l.done = true; }
        else { l.done = true; if (!(WIFEXITED(st) && WEXITSTATUS(st) == 0)) { fprintf(stderr, "worker %d ended abnormally outside a run (status %d)\n", idx[k], st); harness_fault = 1; } }
      }
    }
  }

  // 3. determinism recheck of a sample of runs in pristine forked children
  long rechecked = 0, mismatches = 0;
  for (auto& kv : recheck_hash) {
    json plan = prof->generate(o.seed, kv.first, o.tier);
    ExecResult r = run_isolated(prof, plan, prof->watchdog_s());
    ++rechecked;
    if (r.trace_hash != kv.second) { ++mismatches; fprintf(stderr, "determinism mismatch at run %ld: %s vs %s (%s)\n", kv.first, hex64(kv.second).c_str(), hex64(r.trace_hash).c_str(), r.vclass.c_str()); }
    if (samples.size() < 4) { json s = prof->sample(plan); s["_run"] = kv.first; s["_trace_hash"] = hex64(r.trace_hash); s["_outcome"] = r.vclass.empty() ? "held" : r.vclass; samples.push_back(s); }
  }
  if (mismatches) harness_fault = 1;

  // 4. violation candidates: gate, minimise, classify against known findings
  std::map<std::string, int> per_class; long minimise_reruns = 0;
  std::sort(cands.begin(), cands.end(), [](const Cand& a, const Cand& b) { return a.run < b.run; });
  std::map<std::string, int> reported_class;
  for (Cand& c : cands) {
    // a handful of representatives per class reported by the workers is enough
    static const bool discovery = getenv("BLOCSIM_DISCOVERY") != nullptr;   // list many distinct classes quickly, no minimisation
    if (reported_class[c.res.vclass]++ >= (c.res.vclass == "crash/worker" ? (discovery ? 200 : 8) : 3)) continue;
    if (c.plan.is_null()) c.plan = prof->generate(o.seed, c.run, o.tier);
    // gate: twice in pristine children, same class and same trace hash
    ExecResult a = run_isolated(prof, c.plan, prof->watchdog_s() * 2);
    if (a.vclass.empty()) {
      fprintf(stderr, "HARNESS-NONDETERMINISM: %s reported '%s' in the worker but holds in a fresh process\n", c.origin.c_str(), c.res.vclass.c_str());
      harness_fault = 1; continue;
    }
    if (per_class[a.vclass]++ >= 2) continue;  // enough representatives of this class
    ExecResult b = run_isolated(prof, c.plan, prof->watchdog_s() * 2);
    if (a.vclass != b.vclass || a.trace_hash != b.trace_hash) {
      fprintf(stderr, "HARNESS-NONDETERMINISM: %s: '%s'/%s then '%s'/%s\n", c.origin.c_str(), a.vclass.c_str(), hex64(a.trace_hash).c_str(), b.vclass.c_str(), hex64(b.trace_hash).c_str());
      harness_fault = 1; continue;
    }
    if (a.vclass.rfind("M/harness", 0) == 0) { fprintf(stderr, "HARNESS-FAULT: %s: %s %s\n", c.origin.c_str(), a.vclass.c_str(), a.message.c_str()); harness_fault = 1; continue; }
    const Finding* fd = match_finding(findings, a);
    if (fd) {
      if (known_ids_printed.insert(fd->id).second) printf("KNOWN-FINDING: property=%s %s [%s]\n", o.prop.c_str(), fd->what.c_str(), fd->id.c_str());
      continue;
    }
    long rr = 0; json minp = c.plan;
    if (violations < 3 && !getenv("BLOCSIM_DISCOVERY")) { minp = minimise(prof, c.plan, a.vclass, prof->watchdog_s() * 2, &rr); minimise_reruns += rr; }
    ExecResult m = run_isolated(prof, minp, prof->watchdog_s() * 2);
    if (m.vclass != a.vclass) { minp = c.plan; m = a; }
    // the minimised plan may fall into a listed finding
    fd = match_finding(findings, m);
    if (fd) { if (known_ids_printed.insert(fd->id).second) printf("KNOWN-FINDING: property=%s %s [%s]\n", o.prop.c_str(), fd->what.c_str(), fd->id.c_str()); continue; }
    minp["property"] = o.prop; minp["expect"] = json{{"violation", m.vclass}, {"trace_hash", hex64(m.trace_hash)}, {"message", m.message}};
    minp["found_by"] = json{{"seed", o.seed}, {"tier", o.tier}, {"origin", c.origin}, {"flavour", flavour()}};
    std::string path = o.outdir + "/violations/" + o.prop + "-" + hex64(fnv1a(m.vclass + "|" + minp.dump(-1, ' ', false, json::error_handler_t::replace))).substr(0, 12) + ".plan.json";
    write_file(path, minp.dump(1, ' ', false, json::error_handler_t::replace));
    // fresh process replay must reproduce it exactly
    char rp[4096]; if (!realpath(path.c_str(), rp)) strcpy(rp, path.c_str());
    std::string cmdline = bindir() + "/blocsim replay '" + rp + "' > /dev/null 2>&1";
    int st = system(cmdline.c_str());
    if (!(WIFEXITED(st) && WEXITSTATUS(st) == 1)) { fprintf(stderr, "HARNESS-NONDETERMINISM: replay file %s did not reproduce in a fresh process\n", rp); harness_fault = 1; continue; }
    ++violations;
    printf("violation: %s\n  %s\n", m.vclass.c_str(), m.message.substr(0, 600).c_str());
    printf("VIOLATION property=%s replay=%s\n", o.prop.c_str(), rp);
  }

  // 5. evidence
  double wall = now_s() - t0;
  if (!o.evidence.empty()) {
    json cov;
    cov["evaluations"] = evaluations;
    cov["distinct_nontrivial"] = (long)distinct_nt.size();
    cov["rule"] = prof->rule();
    cov["samples"] = samples;
    cov["exhaustive"] = prof->exhaustive(o.tier);
    cov["distinct_traces_all"] = (long)distinct_all.size();
    cov["corpus_plans"] = corpus_runs;
    cov["runs_fault_free"] = faultfree_runs; cov["runs_with_faults"] = faulty_runs;
    cov["faults_fired"] = faults; cov["probes"] = probes;
    cov["statement_steps"] = total_steps;
    cov["sim_time_s"] = sim_time;
    cov["runs_per_hour"] = wall > 0 ? (long)(evaluations / wall * 3600.0) : 0;
    cov["seeds"] = json{{"verif_seed", o.seed}, {"first_run", 0}, {"last_run", total - 1}};
    cov["components"] = prof->components();
    cov["determinism"] = json{{"rechecked", rechecked}, {"mismatches", mismatches}};
    cov["known_findings_printed"] = std::vector<std::string>(known_ids_printed.begin(), known_ids_printed.end());
    cov["minimise_reruns"] = minimise_reruns;
    cov["workers"] = o.workers; cov["flavour"] = flavour();
    json ev{{"property_id", o.prop}, {"tier", o.tier}, {"seed", o.seed}, {"level", prof->level()}, {"coverage", cov},
            {"assumptions", prof->assumptions()}, {"wall_s", wall}, {"violations", violations}};
    write_file(o.evidence, ev.dump(1, ' ', false, json::error_handler_t::replace));
  }
  printf("%s %s seed=%llu: %ld runs (+%ld corpus), %zu distinct nontrivial traces, %ld violations, %zu known findings, %.1f s\n",
         o.prop.c_str(), o.tier.c_str(), (unsigned long long)o.seed, evaluations - corpus_runs, corpus_runs, distinct_nt.size(), violations, known_ids_printed.size(), wall);
  if (violations) return 1;
  if (harness_fault) return 2;
  return 0;
}
