#pragma once
#include <string>
#include <vector>
#include <cstdio>

namespace sim {

// bytes <-> JSON-safe UTF-8 (latin-1 transcoding: byte b -> U+00bb)
inline std::string enc(const std::string& bytes) {
  std::string o; o.reserve(bytes.size());
  for (unsigned char c : bytes) { if (c < 0x80) o.push_back((char)c); else { o.push_back((char)(0xC0 | (c >> 6))); o.push_back((char)(0x80 | (c & 0x3F))); } }
  return o;
}
inline std::string dec(const std::string& u) {
  std::string o; o.reserve(u.size());
  for (size_t i = 0; i < u.size(); ++i) {
    unsigned char c = u[i];
    if (c < 0x80) o.push_back((char)c);
    else if ((c & 0xE0) == 0xC0 && i + 1 < u.size()) { o.push_back((char)(((c & 0x03) << 6) | (u[i + 1] & 0x3F))); ++i; }
    else o.push_back('?');
  }
  return o;
}
inline std::string printable(const std::string& s, size_t max = 200) {
  std::string o;
  for (unsigned char c : s) {
    if (o.size() >= max) { o += "..."; break; }
    if (c == '\n') o += "\\n"; else if (c == '\\') o += "\\\\"; else if (c < 32 || c >= 127) { char b[8]; snprintf(b, sizeof b, "\\x%02x", c); o += b; } else o.push_back((char)c);
  }
  return o;
}

} // namespace sim
