// Seeded task scheduler: real threads, exactly one runnable at a time,
// parked/released at intercepted points (see handoff.c).
#pragma once
#include <functional>
#include <utility>
#include <vector>

namespace sim {

class Sched {
public:
  // returns the task id
  int add(std::function<void()> fn);
  // run all tasks to completion under the given switch list ("at global yield #n switch to task k")
  void run(const std::vector<std::pair<long, int>>& switches, int first = 0);
  // from inside a task / hook
  static int current();           // -1 outside tasks
  static bool yield();            // plan-driven; true when a switch happened
  static void yield_to_other();   // unconditional (waiting for a condition)
  long yields = 0, switches = 0;
  std::vector<long> trace;        // triples (yield#, from, to)
private:
  std::vector<std::function<void()>> _fns;
};

} // namespace sim

extern "C" int sim_current_task();
