// Property profile interface + shared result/event types.
#pragma once
#include <nlohmann/json.hpp>
#include <map>
#include <string>
#include <vector>
#include <cstdint>
#include "rng.h"

using json = nlohmann::json;

namespace sim {

// In-memory event list; logging never draws from the PRNG nor reads a clock.
class EventLog {
  uint64_t _h = 0xcbf29ce484222325ULL;
  std::vector<std::string> _ev;
  bool _keep = false;
public:
  void keep(bool b) { _keep = b; }
  void add(const std::string& e) {
    _h = fnv1a(e, _h); _h = fnv1a("\x1e", 1, _h);
    if (_keep) _ev.push_back(e);
  }
  uint64_t hash() const { return _h; }
  const std::vector<std::string>& events() const { return _ev; }
  void clear() { _h = 0xcbf29ce484222325ULL; _ev.clear(); }
};

struct ExecResult {
  std::string vclass;     // "" = property held on this run; else stable violation class
  std::string message;    // human detail (not part of the class)
  uint64_t trace_hash = 0;
  bool nontrivial = false;
  bool faulty = false;    // at least one fault fired (fault-free vs faulty reported apart)
  std::map<std::string, long> faults;  // fault kinds that actually fired
  std::map<std::string, long> probes;  // "rare condition reached" counters
  double sim_time_s = 0;
  long steps = 0;         // statement steps / yields (distinct-state measure input)

  json to_json() const {
    return json{{"vclass", vclass}, {"message", message}, {"hash", trace_hash},
                {"nontrivial", nontrivial}, {"faulty", faulty}, {"faults", faults},
                {"probes", probes}, {"sim_time_s", sim_time_s}, {"steps", steps}};
  }
  static ExecResult from_json(const json& j) {
    ExecResult r;
    r.vclass = j.value("vclass", ""); r.message = j.value("message", "");
    r.trace_hash = j.value("hash", (uint64_t)0); r.nontrivial = j.value("nontrivial", false);
    r.faulty = j.value("faulty", false);
    if (j.contains("faults")) r.faults = j["faults"].get<std::map<std::string, long>>();
    if (j.contains("probes")) r.probes = j["probes"].get<std::map<std::string, long>>();
    r.sim_time_s = j.value("sim_time_s", 0.0); r.steps = j.value("steps", 0L);
    return r;
  }
};

struct Profile {
  virtual ~Profile() {}
  virtual const char* id() const = 0;
  virtual const char* level() const { return "exploration"; }
  // number of generated runs for the tier
  virtual long budget(const std::string& tier) const = 0;
  // phase 1: plan = f(VERIF_SEED, runno) - the only place the PRNG is used
  virtual json generate(uint64_t verif_seed, uint64_t runno, const std::string& tier) = 0;
  // per-run seed derived from the batch seed
  uint64_t runseed(uint64_t verif_seed, uint64_t runno) const { return subseed(verif_seed, id(), runno); }
  // phase 2: pure function of the plan and the code
  virtual ExecResult execute(const json& plan) = 0;
  // strictly smaller candidate plans for minimisation (may be empty)
  virtual std::vector<json> shrink(const json& /*plan*/) { return {}; }
  // run every plan in a forked child of the worker (isolation for threads, CLI, TSan dedup)
  virtual bool fork_per_run() const { return false; }
  // evidence text
  virtual std::string rule() const = 0;
  virtual json components() const { return json{{"real", json::array()}, {"stub", json::array()}}; }
  virtual std::vector<std::string> assumptions() const { return {}; }
  // abridge a plan for evidence samples
  virtual json sample(const json& plan) const { return plan; }
  // true when the tier enumerated a finite space completely
  virtual bool exhaustive(const std::string& /*tier*/) const { return false; }
  // per-run wall-clock watchdog (seconds); hang class only after reproduction
  virtual int watchdog_s() const { return 60; }
};

void register_profile(Profile* p);
Profile* find_profile(const std::string& id);
std::vector<Profile*>& all_profiles();

struct ProfileRegistrar { explicit ProfileRegistrar(Profile* p) { register_profile(p); } };

// flavour this binary was built as ("asan", "tsan", "plain")
const char* flavour();
// directory of the running binary (modules live next to it)
const std::string& bindir();

} // namespace sim
