/* Serialising task hand-off. Compiled WITHOUT any sanitizer so that
 * ThreadSanitizer sees no happens-before edge created by the scheduler:
 * accesses the library itself does not order are reported as races although
 * they ran one after the other under a deterministic schedule.
 * All scheduler state shared between task threads lives in this file. */
#define _GNU_SOURCE
#include <linux/futex.h>
#include <sys/syscall.h>
#include <unistd.h>
#include <limits.h>
#include <string.h>
#include "handoff.h"

#define MAXT 32
#define MAXSW 8192

static volatile int g_cur = -1;          /* task whose turn it is; -2 = controller */
static volatile int g_alive[MAXT];
static int g_ntasks;
static volatile long g_yield_no;
static long g_sw_at[MAXSW];
static int g_sw_to[MAXSW];
static int g_nsw, g_swi;
static long g_switches;
static long g_trace[MAXSW * 3];
static int g_ntrace;

static void fwait(volatile int* addr, int val) { syscall(SYS_futex, addr, FUTEX_WAIT, val, NULL, NULL, 0); }
static void fwake(volatile int* addr) { syscall(SYS_futex, addr, FUTEX_WAKE, INT_MAX, NULL, NULL, 0); }

static void wait_turn(int me)
{
  for (;;)
  {
    int c = __atomic_load_n(&g_cur, __ATOMIC_ACQUIRE);
    if (c == me) return;
    fwait(&g_cur, c);
  }
}

static void give(int to)
{
  __atomic_store_n(&g_cur, to, __ATOMIC_RELEASE);
  fwake(&g_cur);
}

void simh_reset(int ntasks, const long* at, const int* to, int nsw)
{
  int i;
  g_ntasks = ntasks > MAXT ? MAXT : ntasks;
  for (i = 0; i < MAXT; ++i) g_alive[i] = i < g_ntasks;
  g_nsw = nsw > MAXSW ? MAXSW : nsw;
  for (i = 0; i < g_nsw; ++i) { g_sw_at[i] = at[i]; g_sw_to[i] = to[i]; }
  g_swi = 0; g_yield_no = 0; g_switches = 0; g_ntrace = 0;
  __atomic_store_n(&g_cur, -1, __ATOMIC_RELEASE);
}

static int next_alive(int from)
{
  int k;
  for (k = 0; k < g_ntasks; ++k)
  {
    int t = (from + k) % g_ntasks;
    if (t < 0) t += g_ntasks;
    if (g_alive[t]) return t;
  }
  return -1;
}

void simh_start(int first)
{
  int t = next_alive(first);
  give(t < 0 ? -2 : t);
}

void simh_enter(int me) { wait_turn(me); }

static void record(long n, int from, int to)
{
  if (g_ntrace + 3 <= MAXSW * 3) { g_trace[g_ntrace++] = n; g_trace[g_ntrace++] = from; g_trace[g_ntrace++] = to; }
}

int simh_yield(int me)
{
  long n = g_yield_no++;
  int target = -1;
  while (g_swi < g_nsw && g_sw_at[g_swi] < n) ++g_swi;
  if (g_swi < g_nsw && g_sw_at[g_swi] == n) { target = g_sw_to[g_swi]; ++g_swi; }
  if (target < 0) return 0;
  target = next_alive(target);
  if (target < 0 || target == me) return 0;
  ++g_switches;
  record(n, me, target);
  give(target);
  wait_turn(me);
  return 1;
}

int simh_yield_to_other(int me)
{
  int target = next_alive(me + 1);
  long n = g_yield_no++;
  if (target < 0 || target == me) return 0;
  ++g_switches;
  record(n, me, target);
  give(target);
  wait_turn(me);
  return 1;
}

void simh_exit(int me)
{
  int t;
  g_alive[me] = 0;
  t = next_alive(me + 1);
  record(g_yield_no, me, t < 0 ? -2 : t);
  give(t < 0 ? -2 : t);
}

void simh_wait_all(void) { wait_turn(-2); }

long simh_yield_count(void) { return g_yield_no; }
long simh_switch_count(void) { return g_switches; }
int simh_trace(const long** p) { *p = g_trace; return g_ntrace; }
int simh_alive(int t) { return t >= 0 && t < MAXT && g_alive[t]; }
