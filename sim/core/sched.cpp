#include "sched.h"
#include "handoff.h"
#include <pthread.h>
#include <unistd.h>
#include <cstdio>
#include <cstdlib>
#include <exception>

namespace sim {

static thread_local int tl_task = -1;

int Sched::add(std::function<void()> fn) { _fns.push_back(std::move(fn)); return (int)_fns.size() - 1; }
int Sched::current() { return tl_task; }
bool Sched::yield() { if (tl_task < 0) return false; return simh_yield(tl_task) != 0; }
void Sched::yield_to_other() { if (tl_task >= 0) simh_yield_to_other(tl_task); }

struct Start { std::function<void()>* fn; int id; };

static void* tramp(void* p) {
  Start* s = static_cast<Start*>(p);
  tl_task = s->id;
  simh_enter(s->id);
  try { (*s->fn)(); }
  catch (std::exception& e) { fprintf(stderr, "SIM-TERMINATE task %d: %s\n", s->id, e.what()); fflush(stderr); _exit(70); }
  catch (...) { fprintf(stderr, "SIM-TERMINATE task %d: unknown exception\n", s->id); fflush(stderr); _exit(70); }
  simh_exit(s->id);
  return nullptr;
}

void Sched::run(const std::vector<std::pair<long, int>>& sw, int first) {
  std::vector<long> at; std::vector<int> to;
  for (auto& p : sw) { at.push_back(p.first); to.push_back(p.second); }
  int n = (int)_fns.size();
  simh_reset(n, at.data(), to.data(), (int)at.size());
  std::vector<pthread_t> th(n); std::vector<Start> st(n);
  pthread_attr_t attr; pthread_attr_init(&attr); pthread_attr_setstacksize(&attr, 64UL << 20);
  for (int i = 0; i < n; ++i) {
    st[i] = Start{&_fns[i], i};
    if (pthread_create(&th[i], &attr, tramp, &st[i]) != 0) { perror("pthread_create"); exit(2); }
  }
  pthread_attr_destroy(&attr);
  simh_start(first);
  simh_wait_all();
  for (int i = 0; i < n; ++i) pthread_join(th[i], nullptr);
  yields = simh_yield_count(); switches = simh_switch_count();
  const long* t; int nt = simh_trace(&t); trace.assign(t, t + nt);
  _fns.clear();
}

} // namespace sim

extern "C" int sim_current_task() { return sim::Sched::current(); }
