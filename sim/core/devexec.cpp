// blocsim exec <file> [dump]: run a source text in a trusted context (development aid)
#include "oracle/world.h"
#include "oracle/dump.h"
#include "seams/vfhost.h"
#include <cstdio>
#include <unistd.h>

int sim_dev_exec(const std::string& text, bool dump) {
  bloc::Context ctx(STDOUT_FILENO, STDERR_FILENO);
  ctx.trusted(true);
  bloc::Executable* exe = nullptr;
  sim::Outcome o = sim::parse_text(ctx, text, exe);
  if (!o.ok()) { printf("=> %s: %s\n", o.str().c_str(), o.text.c_str()); return 1; }
  o = sim::run_exe(exe);
  fflush(ctx.ctxout());
  printf("=> %s %s\n", o.str().c_str(), o.text.c_str());
  if (dump) {
    printf("%s", sim::dump_context(ctx).c_str());
    for (auto& l : sim::dump_functors(ctx)) printf("fn %s\n", l.c_str());
    printf("residue: '%s'\n", sim::check_residue(ctx).c_str());
    for (auto& e : sim::VfHost::get().events) printf("vf %d %c %ld %ld %s\n", e.task, e.kind, e.a, e.b, e.s.c_str());
  }
  delete exe;
  return 0;
}

#include "gen/gen.h"
#include "seams/capture.h"
#include <map>
#include "oracle/stepguard.h"
int sim_dev_genprog(uint64_t seed, int count) {
  if (count <= 1) {
    sim::Rng r(seed); sim::GenKnobs k; sim::GenProgram p = sim::gen_program(r, k);
    printf("%s", sim::print_program(p.ast).c_str());
    return 0;
  }
  std::map<std::string, int> oc; long steps = 0;
  for (int i = 0; i < count; ++i) {
    sim::Rng r(seed + i); sim::GenKnobs k; sim::GenProgram p = sim::gen_program(r, k);
    std::string text = sim::print_program(p.ast);
    sim::Capture cap; std::string key;
    {
      bloc::Context ctx(cap.fd(), cap.fd()); ctx.trusted(true);
      bloc::Executable* exe = nullptr;
      sim::Outcome o = sim::parse_text(ctx, text, exe);
      if (!o.ok()) { key = "parse:" + o.text; if (oc[key] == 0) printf("--- seed %llu: %s\n", (unsigned long long)(seed + i), o.text.c_str()); }
      else { sim::StepGuard g(20000); o = sim::run_exe(exe); key = "run:" + o.str() + (g.exceeded ? " STEP-BUDGET" : ""); steps += g.steps; if (g.exceeded && oc[key] == 0) printf("--- seed %llu: step budget\n", (unsigned long long)(seed + i)); delete exe; }
    }
    ++oc[key];
    sim::VfHost::get().reset();
  }
  for (auto& kv : oc) printf("%6d %s\n", kv.second, kv.first.c_str());
  printf("avg steps %ld\n", steps / count);
  return 0;
}
int sim_dev_find(uint64_t seed, int count, const std::string& want) {
  for (int i = 0; i < count; ++i) {
    sim::Rng r(seed + i); sim::GenKnobs k; sim::GenProgram p = sim::gen_program(r, k);
    std::string text = sim::print_program(p.ast);
    sim::Capture cap; std::string key;
    { bloc::Context ctx(cap.fd(), cap.fd()); ctx.trusted(true); bloc::Executable* exe = nullptr; sim::Outcome o = sim::parse_text(ctx, text, exe);
      if (!o.ok()) key = "parse:" + o.text; else { sim::StepGuard g(20000); o = sim::run_exe(exe); key = "run:" + o.str(); delete exe; } }
    sim::VfHost::get().reset();
    if (key.find(want) != std::string::npos) { printf("seed %llu %s\n", (unsigned long long)(seed + i), key.c_str()); return 0; }
  }
  return 1;
}
