#pragma once
#ifdef __cplusplus
extern "C" {
#endif
void simh_reset(int ntasks, const long* at, const int* to, int nsw);
void simh_start(int first);
void simh_enter(int me);
int  simh_yield(int me);            /* returns 1 when a switch happened */
int  simh_yield_to_other(int me);   /* unconditional round-robin switch (waiting for a condition) */
void simh_exit(int me);
void simh_wait_all(void);
long simh_yield_count(void);
long simh_switch_count(void);
int  simh_trace(const long** p);
int  simh_alive(int t);
#ifdef __cplusplus
}
#endif
