// Scheduling points at atomic operations (tsan flavour only).
// Under -fsanitize=thread every std::atomic operation of the instrumented code is a call into the
// ThreadSanitizer runtime (__tsan_atomic32_load, __tsan_atomic32_fetch_sub, ...). The simulator's link
// line wraps the 32-bit entry points (-Wl,--wrap=...), so each such operation of /repo (the handle
// counter of bloc::Complex) can become a yield point of the seeded scheduler *before* it takes effect:
// a window between "load" and "decrement" that contains no statement, allocation or trace hook
// becomes reachable. Off unless a plan asks for it. Compiled without instrumentation, like handoff.c.
#include "core/handoff.h"
extern "C" {
int sim_current_task();
volatile int sim_atomic_yield_mode = 0;
volatile long sim_atomic_yield_count = 0;
#ifdef SIM_ATOMIC_WRAPS
typedef int a32;
static inline void pt() {
  if (!sim_atomic_yield_mode) return;
  int t = sim_current_task();
  if (t < 0) return;
  ++sim_atomic_yield_count;
  simh_yield(t);
}
a32 __real___tsan_atomic32_load(const volatile a32*, int);
a32 __wrap___tsan_atomic32_load(const volatile a32* a, int mo) { pt(); return __real___tsan_atomic32_load(a, mo); }
void __real___tsan_atomic32_store(volatile a32*, a32, int);
void __wrap___tsan_atomic32_store(volatile a32* a, a32 v, int mo) { pt(); __real___tsan_atomic32_store(a, v, mo); }
a32 __real___tsan_atomic32_fetch_add(volatile a32*, a32, int);
a32 __wrap___tsan_atomic32_fetch_add(volatile a32* a, a32 v, int mo) { pt(); return __real___tsan_atomic32_fetch_add(a, v, mo); }
a32 __real___tsan_atomic32_fetch_sub(volatile a32*, a32, int);
a32 __wrap___tsan_atomic32_fetch_sub(volatile a32* a, a32 v, int mo) { pt(); return __real___tsan_atomic32_fetch_sub(a, v, mo); }
a32 __real___tsan_atomic32_exchange(volatile a32*, a32, int);
a32 __wrap___tsan_atomic32_exchange(volatile a32* a, a32 v, int mo) { pt(); return __real___tsan_atomic32_exchange(a, v, mo); }
int __real___tsan_atomic32_compare_exchange_strong(volatile a32*, a32*, a32, int, int);
int __wrap___tsan_atomic32_compare_exchange_strong(volatile a32* a, a32* c, a32 v, int mo, int fmo) { pt(); return __real___tsan_atomic32_compare_exchange_strong(a, c, v, mo, fmo); }
int __real___tsan_atomic32_compare_exchange_weak(volatile a32*, a32*, a32, int, int);
int __wrap___tsan_atomic32_compare_exchange_weak(volatile a32* a, a32* c, a32 v, int mo, int fmo) { pt(); return __real___tsan_atomic32_compare_exchange_weak(a, c, v, mo, fmo); }
#endif
}
