// SimStdin: replaces the process' `stdin` by an fopencookie stream whose reads are cut by the plan,
// and drives the wrapped select() of bloc_readstdin (timeouts, EINTR) - see wraps.h.
#pragma once
#include <cstdio>
#include <string>
#include <vector>

namespace sim {

class SimStdin {
public:
  // chunks: sizes of successive reads handed to stdio; then `tail` (0 = as asked)
  SimStdin(const std::string& data, const std::vector<int>& chunks, int tail, int timeouts_before_ready, int eintr_before_ready);
  ~SimStdin();
  long reads = 0, timeouts = 0, eintrs = 0, selects = 0; bool eof_seen = false;
  size_t consumed() const { return _pos; }
private:
  static ssize_t rd(void* c, char* buf, size_t n);
  std::string _data; std::vector<int> _chunks; int _tail; size_t _pos = 0, _ci = 0;
  int _to, _ei; int _to_left, _ei_left;
  FILE* _saved; FILE* _mine;
};

} // namespace sim
