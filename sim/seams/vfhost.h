// Simulator side of the vf plugin: fault plan, visit counters, object ledger, event list.
// In the tsan flavour this translation unit is compiled WITHOUT -fsanitize=thread so
// that it neither reports nor hides (by synchronising) anything.
#pragma once
#include <functional>
#include <map>
#include <string>
#include <vector>

namespace sim {

struct FaultSpec {
  int task = -1;      // -1: any task
  long point = 0;     // fault point id
  long visit = 1;     // fires on this visit (1-based) of the point by the task
  int code = 0;       // bloc::EXC_RT number
  std::string arg;    // user error name / message argument
  std::string kind;   // evidence label: rt_catchable / rt_fatal
};

struct ObjRec {
  long oid; int module; void* ctx; long tag; int task;
  int destroyed = 0;      // number of destroy calls
  int destroyed_dead = 0; // destroy calls that found the object already dead
  long methods = 0; long methods_dead = 0;
};

struct VfEvent { int task; char kind; long a; long b; std::string s; };

class VfHost {
public:
  static VfHost& get();
  void reset();
  void arm(const std::vector<FaultSpec>& f) { faults = f; }
  std::vector<FaultSpec> faults;
  std::vector<ObjRec> objects;               // index = oid - 1
  std::vector<VfEvent> events;
  std::map<std::pair<int, long>, long> visits;
  std::map<std::string, long> fired_by_kind;
  long fired = 0;
  bool yield_in_calls = true;
  int actor = -1;            // when >= 0 replaces the task id (sequential reference runs of a task's plan)
  // optional observers (set by profiles)
  std::function<void(int module, void* ctx, long oid)> on_create;
  std::function<void(long point, void* ctx)> on_point;
  long live_count() const { long n = 0; for (auto& o : objects) if (!o.destroyed) ++n; return n; }
};

} // namespace sim
