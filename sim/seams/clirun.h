// Runs the repository's main() (apps/main.cpp compiled with -Dmain=bloc_cli_main) inside the current
// (per-run child) process with simulator-owned stdout, stdin, select and clock.
#pragma once
#include "seams/capture.h"
#include "seams/clock.h"
#include "seams/sanreports.h"
#include "seams/simstdin.h"
#include "seams/wraps.h"
#include "oracle/stepguard.h"
#include <cstring>
#include <functional>
#include <memory>
#include <string>
#include <typeinfo>
#include <vector>

int bloc_cli_main(int argc, char** argv);

namespace sim {

struct CliResult { int rc = -1; std::string out, err, foreign; long steps = 0; bool budget_exceeded = false; long timeouts = 0, eintrs = 0, reads = 0; bool eof_seen = false; double sim_time_s = 0; };

struct StdinPlan { std::vector<int> chunks; int tail = 0; int timeouts = 0; int eintr = 0; };

inline CliResult run_cli(const std::vector<std::string>& argv_s, const std::string* stdin_text, const StdinPlan& sp, long step_budget = 200000, std::function<void(bloc::Context&)> on_statement = nullptr) {
  CliResult r;
  const int64_t T0 = 1700000000LL * 1000000000LL;
  SimClock::enable(T0);
  wraps().dlopen = [](const char* name, int, bool& handled) -> void* { if (name && strstr(name, "readline")) { handled = true; return nullptr; } return nullptr; };
  std::unique_ptr<SimStdin> sin; if (stdin_text) sin.reset(new SimStdin(*stdin_text, sp.chunks, sp.tail, sp.timeouts, sp.eintr));
  std::vector<char*> argv; for (auto& s : argv_s) argv.push_back(const_cast<char*>(s.c_str())); argv.push_back(nullptr);
  Capture cout_; fflush(stdout); int saved1 = dup(1); dup2(cout_.fd(), 1);
  off_t mark = stderr_mark();
  { StepGuard g(step_budget); g.extra = [&](bloc::Context& c, const bloc::Statement*) { SimClock::advance(1000000LL); if (on_statement) on_statement(c); };
    try { r.rc = bloc_cli_main((int)argv.size() - 1, argv.data()); }
    catch (std::exception& e) { r.foreign = std::string(typeid(e).name()) + ": " + e.what(); }
    catch (...) { r.foreign = "unknown exception"; }
    r.steps = g.steps; r.budget_exceeded = g.exceeded; }
  fflush(stdout); dup2(saved1, 1); close(saved1);
  r.out = cout_.read_all(); r.err = stderr_since(mark);
  if (sin) { r.timeouts = sin->timeouts; r.eintrs = sin->eintrs; r.reads = sin->reads; r.eof_seen = sin->eof_seen; }
  r.sim_time_s = (double)(SimClock::now_ns() - T0) / 1e9;
  sin.reset(); wraps().reset(); SimClock::disable();
  return r;
}

} // namespace sim
