#include "wraps.h"
#include <dlfcn.h>

extern "C" int __real_select(int, fd_set*, fd_set*, fd_set*, struct timeval*);
extern "C" void* __real_dlopen(const char*, int);

namespace sim {
Wraps& wraps() { static Wraps* w = new Wraps(); return *w; }
}

extern "C" int __wrap_select(int n, fd_set* r, fd_set* w, fd_set* e, struct timeval* t) {
  if (sim::wraps().select) return sim::wraps().select(n, r, w, e, t);
  return __real_select(n, r, w, e, t);
}

extern "C" void* __wrap_dlopen(const char* name, int flags) {
  if (sim::wraps().dlopen) {
    bool handled = false;
    void* h = sim::wraps().dlopen(name, flags, handled);
    if (handled) return h;
  }
  return __real_dlopen(name, flags);
}
