#include "hooks.h"

namespace sim {

static Hooks* g_hooks = nullptr;

static void stmt_tramp(bloc::Context& ctx, const bloc::Statement* s) { if (g_hooks && g_hooks->on_statement) g_hooks->on_statement(ctx, s); }
static void alloc_tramp(bloc::Context& ctx) { if (g_hooks && g_hooks->on_allocate) g_hooks->on_allocate(ctx); }
static void trace_tramp() { if (g_hooks && g_hooks->on_trace) g_hooks->on_trace(); }

void Hooks::install() {
  g_hooks = this;
  bloc::verif_hooks.on_statement = on_statement ? &stmt_tramp : nullptr;
  bloc::verif_hooks.on_allocate = on_allocate ? &alloc_tramp : nullptr;
  bloc::verif_hooks.on_trace = on_trace ? &trace_tramp : nullptr;
}
void Hooks::remove() { bloc::verif_hooks.on_statement = nullptr; bloc::verif_hooks.on_allocate = nullptr; bloc::verif_hooks.on_trace = nullptr; g_hooks = nullptr; }

} // namespace sim
