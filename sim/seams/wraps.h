// Link-time wraps (--wrap=select,--wrap=dlopen): pass-through unless a simulation installs a handler.
#pragma once
#include <functional>
#include <sys/select.h>

namespace sim {
struct Wraps {
  // return value of select(); handler decides readiness / timeout / EINTR
  std::function<int(int, fd_set*, fd_set*, fd_set*, struct timeval*)> select;
  // dlopen: set handled=true and return the handle (or null = failure) to override
  std::function<void*(const char*, int, bool&)> dlopen;
  void reset() { select = nullptr; dlopen = nullptr; }
};
Wraps& wraps();
}
