// Reads the sanitizer reports the current process has written to fd 2 (which the runner
// redirects to a private memfd for every isolated run) and classifies ThreadSanitizer races.
#pragma once
#include <string>
#include <vector>
#include <set>
#include <unistd.h>
#include <cstdio>

namespace sim {

inline off_t stderr_mark() { fflush(stderr); off_t o = lseek(2, 0, SEEK_CUR); return o < 0 ? 0 : o; }

inline std::string stderr_since(off_t mark) {
  fflush(stderr);
  off_t end = lseek(2, 0, SEEK_END); if (end < 0 || end <= mark) return "";
  std::string s((size_t)(end - mark), '\0');
  ssize_t n = pread(2, &s[0], s.size(), mark); if (n < 0) n = 0; s.resize((size_t)n);
  return s;
}

struct RaceReport {
  std::string a, b;       // innermost /repo frame of each access: "file.cpp:function"
  std::string kind;       // "data race", "heap-use-after-free", ...
  std::string sig() const { return a < b ? a + " <-> " + b : b + " <-> " + a; }
};

// The innermost frame that has a source location must lie inside /repo/ (interceptor frames such as
// memcpy or operator new carry no location and are skipped): a race whose accesses are made by the
// harness or the verification plugin is not a race of the library.
inline std::string repo_frame(const std::string& block) {
  size_t p = 0;
  while (p < block.size()) {
    size_t e = block.find('\n', p); if (e == std::string::npos) e = block.size();
    std::string line = block.substr(p, e - p); p = e + 1;
    size_t h = line.find("    #"); if (h == std::string::npos) continue;
    if (line.find("<null>") != std::string::npos) continue;           // interceptor
    size_t r = line.find(" /"); if (r == std::string::npos) continue;  // no source path
    if (line.compare(r + 1, 6, "/repo/") != 0) {
      // libstdc++ headers inlined into library code are looked through; anything else ends the search
      if (line.find("/include/c++/") != std::string::npos) continue;
      return "";
    }
    // "    #0 bloc::Statement::execute(bloc::Context&) const /repo/blocc/statement.cpp:49:10 (blocsim+0x..)"
    size_t fs = line.find(' ', h + 4) + 1;
    std::string fn = line.substr(fs, r - fs);
    size_t par = fn.find('('); if (par != std::string::npos) fn = fn.substr(0, par);
    std::string file = line.substr(r + 1); size_t c = file.find(':'); if (c != std::string::npos) file = file.substr(0, c);
    size_t sl = file.rfind('/'); if (sl != std::string::npos) file = file.substr(sl + 1);
    return file + ":" + fn;
  }
  return "";
}

inline std::vector<RaceReport> parse_tsan(const std::string& err) {
  std::vector<RaceReport> v; size_t p = 0;
  while ((p = err.find("WARNING: ThreadSanitizer: ", p)) != std::string::npos) {
    size_t end = err.find("SUMMARY: ThreadSanitizer", p); if (end == std::string::npos) end = err.size();
    std::string rep = err.substr(p, end - p);
    RaceReport r; { size_t k = p + 26; size_t e = err.find(" (pid", k); size_t nl = err.find('\n', k); if (e == std::string::npos || e > nl) e = nl; r.kind = err.substr(k, e - k); }
    // split into stack blocks separated by blank lines; the first two blocks holding frames are the two accesses
    std::vector<std::string> blocks; size_t q = 0;
    while (q < rep.size()) { size_t e = rep.find("\n\n", q); if (e == std::string::npos) e = rep.size(); blocks.push_back(rep.substr(q, e - q)); q = e + 2; }
    std::vector<std::string> frames;
    for (auto& b : blocks) { if (b.find("    #0 ") == std::string::npos) continue; if (b.find("Location is") != std::string::npos && frames.size() >= 2) break; if (b.find("created by") != std::string::npos) continue; frames.push_back(repo_frame(b)); if (frames.size() == 2) break; }
    if (frames.size() == 2) { r.a = frames[0]; r.b = frames[1]; v.push_back(r); }
    else if (frames.size() == 1) { r.a = frames[0]; r.b = ""; v.push_back(r); }
    p = end + 1;
  }
  return v;
}

} // namespace sim
