// Glue between bloc::verif_hooks (BLOC_VERIF) and the simulator.
#pragma once
#include <blocc/context.h>
#include <blocc/statement.h>
#include <functional>

namespace sim {

// Global observers, valid while installed. Called on whatever thread executes the statement.
struct Hooks {
  std::function<void(bloc::Context&, const bloc::Statement*)> on_statement;
  std::function<void(bloc::Context&)> on_allocate;
  std::function<void()> on_trace;   // every debug trace point of the library (the simulation build compiles the library's DEBUG_* trace switches in)
  void install();     // point bloc::verif_hooks at this object
  static void remove();
  ~Hooks() { remove(); }
};

} // namespace sim
