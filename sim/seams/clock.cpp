#include "clock.h"
#include <sys/syscall.h>
#include <time.h>
#include <unistd.h>

namespace sim {
static volatile bool g_on = false;
static volatile int64_t g_now = 0;
void SimClock::enable(int64_t start_ns) { g_now = start_ns; g_on = true; }
void SimClock::disable() { g_on = false; }
void SimClock::advance(int64_t ns) { g_now += ns; }
int64_t SimClock::now_ns() { return g_now; }
bool SimClock::enabled() { return g_on; }
}

// Interposes libc's clock_gettime for the whole executable (and the modules, which resolve it here first).
extern "C" __attribute__((visibility("default"))) int clock_gettime(clockid_t id, struct timespec* ts) {
  if (sim::g_on && id == CLOCK_REALTIME) {
    int64_t n = sim::g_now;
    ts->tv_sec = (time_t)(n / 1000000000LL); ts->tv_nsec = (long)(n % 1000000000LL);
    return 0;
  }
  return (int)syscall(SYS_clock_gettime, id, ts);
}
