// Output capture on a private memfd (every simulated context gets its own descriptor).
#pragma once
#include <string>
#include <sys/mman.h>
#include <unistd.h>

namespace sim {

class Capture {
  int _fd;
public:
  Capture() : _fd(memfd_create("sim-out", 0)) {}
  ~Capture() { if (_fd >= 0) close(_fd); }
  Capture(const Capture&) = delete; Capture& operator=(const Capture&) = delete;
  int fd() const { return _fd; }
  std::string read_all() const {
    std::string s; off_t sz = lseek(_fd, 0, SEEK_END); if (sz <= 0) return s;
    s.resize(sz); ssize_t n = pread(_fd, &s[0], sz, 0); if (n < 0) n = 0; s.resize(n); return s;
  }
  void reset() { if (ftruncate(_fd, 0) != 0) {} lseek(_fd, 0, SEEK_SET); }
};

} // namespace sim
