#define _GNU_SOURCE 1
#include "simstdin.h"
#include "wraps.h"
#include "clock.h"
#include <cerrno>
#include <cstring>
#include <unistd.h>

namespace sim {

ssize_t SimStdin::rd(void* c, char* buf, size_t n) {
  SimStdin* s = static_cast<SimStdin*>(c);
  ++s->reads;
  if (s->_pos >= s->_data.size()) { s->eof_seen = true; return 0; }
  size_t want = s->_ci < s->_chunks.size() ? (size_t)s->_chunks[s->_ci++] : (s->_tail > 0 ? (size_t)s->_tail : n);
  if (want < 1) want = 1; if (want > n) want = n; if (want > s->_data.size() - s->_pos) want = s->_data.size() - s->_pos;
  memcpy(buf, s->_data.data() + s->_pos, want); s->_pos += want;
  return (ssize_t)want;
}

SimStdin::SimStdin(const std::string& data, const std::vector<int>& chunks, int tail, int to, int ei)
: _data(data), _chunks(chunks), _tail(tail), _to(to), _ei(ei), _to_left(to), _ei_left(ei) {
  cookie_io_functions_t io = {&SimStdin::rd, nullptr, nullptr, nullptr};
  _mine = fopencookie(this, "r", io);
  _saved = stdin; stdin = _mine;
  // select() on fd 0: the plan decides how often it times out or is interrupted before input is "ready"
  wraps().select = [this](int, fd_set* r, fd_set*, fd_set*, struct timeval*) -> int {
    ++selects;
    if (_ei_left > 0) { --_ei_left; ++eintrs; errno = EINTR; return -1; }
    if (_to_left > 0) { --_to_left; ++timeouts; if (r) FD_ZERO(r); SimClock::advance(1000000000LL); return 0; }
    _to_left = _to > 0 ? 1 : 0;   // one more timeout before each later line when the plan asked for any
    if (r) { FD_ZERO(r); FD_SET(0, r); }
    return 1;
  };
}

SimStdin::~SimStdin() { wraps().select = nullptr; stdin = _saved; fclose(_mine); }

} // namespace sim
