// SimReader: a Parser::StreamReader whose read sizes are decided by the plan.
#pragma once
#include <blocc/parser.h>
#include <string>
#include <vector>
#include <cstring>

namespace sim {

class SimReader : public bloc::Parser::StreamReader {
public:
  // chunks: size of the k-th delivery; after the list is used up every delivery has size `tail`
  // (0 = as much as allowed). line_oriented: a delivery also stops after '\n'.
  SimReader(std::string text, std::vector<int> chunks, int tail, bool line_oriented)
  : _text(std::move(text)), _chunks(std::move(chunks)), _tail(tail), _line(line_oriented) {}

  int read(bloc::Parser*, char* buf, int max_size) override {
    ++calls;
    if (_pos >= _text.size() || max_size <= 0) return 0;
    size_t want = _ci < _chunks.size() ? (size_t)_chunks[_ci++] : (_tail > 0 ? (size_t)_tail : (size_t)max_size);
    if (want < 1) want = 1;
    if (want > (size_t)max_size) want = (size_t)max_size;
    if (want > _text.size() - _pos) want = _text.size() - _pos;
    if (_line) {
      const void* nl = memchr(_text.data() + _pos, '\n', want);
      if (nl) want = (const char*)nl - (_text.data() + _pos) + 1;
    }
    memcpy(buf, _text.data() + _pos, want);
    _pos += want;
    offsets.push_back(_pos);
    return (int)want;
  }
  size_t pos() const { return _pos; }
  long calls = 0;
  std::vector<size_t> offsets;   // stream offset after each delivery (= the cut positions)
private:
  std::string _text; std::vector<int> _chunks; int _tail; bool _line; size_t _pos = 0, _ci = 0;
};

} // namespace sim
