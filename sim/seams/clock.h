// Simulated wall clock: CLOCK_REALTIME as seen by the library (std::chrono::system_clock in
// Context::timestamp/elapsed) is a discrete-event counter while a simulation has it switched on.
#pragma once
#include <cstdint>
namespace sim {
struct SimClock {
  static void enable(int64_t start_ns);   // switch on, set the time
  static void disable();
  static void advance(int64_t ns);
  static int64_t now_ns();
  static bool enabled();
};
}
