#include "vfhost.h"
#include "../vf/vf_host.h"
#include "../core/sched.h"
#include <cstring>

namespace sim {

VfHost& VfHost::get() { static VfHost* h = new VfHost(); return *h; }

void VfHost::reset() {
  faults.clear(); objects.clear(); events.clear(); visits.clear(); fired_by_kind.clear(); fired = 0;
  yield_in_calls = true; on_create = nullptr; on_point = nullptr;
}

} // namespace sim

using namespace sim;

extern "C" {

__attribute__((visibility("default"))) void simvf_point(int module, long id, void* ctx, SimVfFault* out) {
  VfHost& h = VfHost::get();
  int task = sim_current_task();
  long v = ++h.visits[{task, id}];
  h.events.push_back({task, 'P', id, v, ""});
  if (h.on_point) h.on_point(id, ctx);
  for (const FaultSpec& f : h.faults) {
    if (f.point != id || f.visit != v) continue;
    if (f.task >= 0 && f.task != (task < 0 ? 0 : task)) continue;
    out->fire = 1; out->code = f.code;
    strncpy(out->arg, f.arg.c_str(), sizeof(out->arg) - 1);
    ++h.fired; ++h.fired_by_kind[f.kind.empty() ? "rt" : f.kind];
    h.events.push_back({task, 'F', id, f.code, f.arg});
    return;
  }
  (void)module;
}

__attribute__((visibility("default"))) long simvf_created(int module, void* ctx, long tag) {
  VfHost& h = VfHost::get();
  int task = sim_current_task();
  ObjRec r; r.oid = (long)h.objects.size() + 1; r.module = module; r.ctx = ctx; r.tag = tag; r.task = task;
  h.objects.push_back(r);
  h.events.push_back({task, 'C', r.oid, module, ""});
  if (h.on_create) h.on_create(module, ctx, r.oid);
  return r.oid;
}

__attribute__((visibility("default"))) void simvf_destroyed(int module, long oid, int was_live) {
  VfHost& h = VfHost::get();
  int task = sim_current_task();
  h.events.push_back({task, 'D', oid, was_live, ""});
  if (oid >= 1 && oid <= (long)h.objects.size()) {
    ObjRec& r = h.objects[oid - 1];
    ++r.destroyed; if (!was_live) ++r.destroyed_dead;
    if (r.module != module) ++r.destroyed_dead;
  }
}

__attribute__((visibility("default"))) void simvf_method(int module, long oid, int was_live, int method, const char* argdump) {
  VfHost& h = VfHost::get();
  if (h.yield_in_calls) Sched::yield();
  int task = sim_current_task();
  h.events.push_back({task, 'M', oid, method, argdump ? argdump : ""});
  if (oid >= 1 && oid <= (long)h.objects.size()) {
    ObjRec& r = h.objects[oid - 1];
    ++r.methods; if (!was_live || r.destroyed || r.module != module) ++r.methods_dead;
  }
}

__attribute__((visibility("default"))) void simvf_yield(long id) {
  VfHost& h = VfHost::get();
  h.events.push_back({sim_current_task(), 'Y', id, 0, ""});
  Sched::yield();
}

}
