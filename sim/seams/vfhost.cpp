#include "vfhost.h"
#include "../vf/vf_host.h"
#include "../core/sched.h"
#include <cstring>

namespace sim {

VfHost& VfHost::get() { static VfHost* h = new VfHost(); return *h; }

void VfHost::reset() {
  faults.clear(); objects.clear(); events.clear(); visits.clear(); fired_by_kind.clear(); fired = 0;
  yield_in_calls = true; actor = -1; on_create = nullptr; on_point = nullptr;
}

} // namespace sim

using namespace sim;

// Under ThreadSanitizer the interceptors (memcpy, operator new) see this uninstrumented code as well:
// its accesses are neither reported nor used as synchronisation.
extern "C" {
void AnnotateIgnoreReadsBegin(const char*, int) __attribute__((weak));
void AnnotateIgnoreReadsEnd(const char*, int) __attribute__((weak));
void AnnotateIgnoreWritesBegin(const char*, int) __attribute__((weak));
void AnnotateIgnoreWritesEnd(const char*, int) __attribute__((weak));
}
namespace {
struct TsanIgnore {
  TsanIgnore() { if (AnnotateIgnoreReadsBegin) { AnnotateIgnoreReadsBegin(__FILE__, __LINE__); AnnotateIgnoreWritesBegin(__FILE__, __LINE__); } }
  ~TsanIgnore() { if (AnnotateIgnoreReadsBegin) { AnnotateIgnoreWritesEnd(__FILE__, __LINE__); AnnotateIgnoreReadsEnd(__FILE__, __LINE__); } }
};
}

extern "C" {

__attribute__((visibility("default"))) void simvf_point(int module, long id, void* ctx, SimVfFault* out) {
  TsanIgnore ign;
  VfHost& h = VfHost::get();
  int task = h.actor >= 0 ? h.actor : sim_current_task();
  long v = ++h.visits[{task, id}];
  h.events.push_back({task, 'P', id, v, ""});
  if (h.on_point) h.on_point(id, ctx);
  for (const FaultSpec& f : h.faults) {
    if (f.point != id || f.visit != v) continue;
    if (f.task >= 0 && f.task != (task < 0 ? 0 : task)) continue;
    out->fire = 1; out->code = f.code;
    strncpy(out->arg, f.arg.c_str(), sizeof(out->arg) - 1);
    ++h.fired; ++h.fired_by_kind[f.kind.empty() ? "rt" : f.kind];
    h.events.push_back({task, 'F', id, f.code, f.arg});
    return;
  }
  (void)module;
}

__attribute__((visibility("default"))) long simvf_created(int module, void* ctx, long tag) {
  TsanIgnore ign;
  VfHost& h = VfHost::get();
  int task = h.actor >= 0 ? h.actor : sim_current_task();
  ObjRec r; r.oid = (long)h.objects.size() + 1; r.module = module; r.ctx = ctx; r.tag = tag; r.task = task;
  h.objects.push_back(r);
  h.events.push_back({task, 'C', r.oid, module, ""});
  if (h.on_create) h.on_create(module, ctx, r.oid);
  return r.oid;
}

__attribute__((visibility("default"))) void simvf_destroyed(int module, long oid, int was_live) {
  TsanIgnore ign;
  VfHost& h = VfHost::get();
  int task = h.actor >= 0 ? h.actor : sim_current_task();
  h.events.push_back({task, 'D', oid, was_live, ""});
  if (oid >= 1 && oid <= (long)h.objects.size()) {
    ObjRec& r = h.objects[oid - 1];
    ++r.destroyed; if (!was_live) ++r.destroyed_dead;
    if (r.module != module) ++r.destroyed_dead;
  }
}

__attribute__((visibility("default"))) void simvf_method(int module, long oid, int was_live, int method, const char* argdump) {
  VfHost& h = VfHost::get();
  if (h.yield_in_calls) Sched::yield();
  TsanIgnore ign;
  int task = h.actor >= 0 ? h.actor : sim_current_task();
  h.events.push_back({task, 'M', oid, method, argdump ? argdump : ""});
  if (oid >= 1 && oid <= (long)h.objects.size()) {
    ObjRec& r = h.objects[oid - 1];
    ++r.methods; if (!was_live || r.destroyed || r.module != module) ++r.methods_dead;
  }
}

__attribute__((visibility("default"))) void simvf_yield(long id) {
  VfHost& h = VfHost::get();
  { TsanIgnore ign; h.events.push_back({h.actor >= 0 ? h.actor : sim_current_task(), 'Y', id, 0, ""}); }
  Sched::yield();
}

}
