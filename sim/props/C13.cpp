// C13 - a source text means the same whatever its line lengths or read fragmentation.
// World: one context, one reader per run. Real: tokenizer, parser, executor, StringReader,
// apps ReadFile, include's ReadFile. Seam: Parser::StreamReader (SimReader).
#include "core/profile.h"
#include "core/util.h"
#include "seams/reader.h"
#include "seams/capture.h"
#include "ref/reflex.h"
#include <blocc/parser.h>
#include <blocc/string_reader.h>
#include <blocc/context.h>
#include <blocc/exception_parse.h>
#include <apps/read_file.h>
#include <sstream>
#include <unistd.h>
#include <sys/mman.h>

using namespace sim;

namespace {

struct Tok { int code; std::string text; bool operator==(const Tok& o) const { return code == o.code && text == o.text; } };

// token stream as the parser sees it (Parsing state: newlines, spaces, comments dropped)
static std::vector<Tok> lex_impl(bloc::Parser::StreamReader& rd) {
  std::vector<Tok> v;
  bloc::Context ctx(STDOUT_FILENO, STDERR_FILENO);
  bloc::Parser* p = bloc::Parser::createInteractiveParser(ctx, rd);
  if (!p) return v;
  p->state(bloc::Parser::Parsing);
  try { for (;;) { bloc::TokenPtr t = p->pop(); v.push_back({t->code, t->text}); if (v.size() > 200000) break; } }
  catch (bloc::ParseError&) {}
  delete p;
  return v;
}

static std::string tokstr(const Tok& t) { return std::to_string(t.code) + ":'" + printable(t.text, 40) + "'"; }

static std::string first_diff(const std::vector<Tok>& a, const std::vector<Tok>& b, size_t* at = nullptr) {
  size_t n = std::min(a.size(), b.size()), i = 0;
  while (i < n && a[i] == b[i]) ++i;
  if (at) *at = i;
  if (i == a.size() && i == b.size()) return "";
  std::string s = "token #" + std::to_string(i) + ": ";
  s += (i < a.size() ? tokstr(a[i]) : std::string("<end>")) + " vs " + (i < b.size() ? tokstr(b[i]) : std::string("<end>"));
  return s;
}

struct ProgOut { bool parsed = false; std::string perr; std::string unparse; std::string out; std::string rerr; };

static ProgOut run_program(bloc::Parser::StreamReader& rd) {
  ProgOut r; Capture cap;
  {
    bloc::Context ctx(cap.fd(), cap.fd());
    bloc::Executable* exe = nullptr;
    try { exe = bloc::Parser::parse(ctx, rd); r.parsed = exe != nullptr; }
    catch (bloc::ParseError& pe) { r.perr = pe.what(); }
    if (exe) {
      { char* buf = nullptr; size_t sz = 0; FILE* m = open_memstream(&buf, &sz); exe->unparse(m); fclose(m); r.unparse.assign(buf, sz); free(buf); }
      try { exe->run(); } catch (bloc::RuntimeError& re) { r.rerr = std::to_string(re.no); }
      fflush(ctx.ctxout());
      delete exe;
    }
  }
  r.out = cap.read_all();
  return r;
}

// ---------------------------------------------------------------- generation
static const char* KW[] = {"if","then","else","elsif","for","while","loop","in","to","return","begin","break","continue","end","print","put","do","exception","when","raise","asc","desc","is","forall","include","step","function","import","let","trace","nop","true","false","null","and","or","not","xor","mod","str","int","num","tab","tup","isnull","typeof"};

static std::string gen_ident(Rng& r) {
  static const char* first = "abcdefghijklmnopqrstuvwxyzABCDEFGHIJKLMNOPQRSTUVWXYZ_$";
  static const char* rest = "abcdefghijklmnopqrstuvwxyzABCDEFGHIJKLMNOPQRSTUVWXYZ_$0123456789";
  size_t n = r.chance(0.1) ? r.range(8, 40) : r.range(1, 8);
  std::string s(1, first[r.below(54)]);
  while (s.size() < n) s.push_back(rest[r.below(64)]);
  return s;
}
static std::string gen_digits(Rng& r, size_t n) { std::string s; for (size_t i = 0; i < n; ++i) s.push_back('0' + r.below(10)); return s; }

static std::string gen_string_body(Rng& r, size_t n, bool newlines) {
  std::string s;
  while (s.size() < n) {
    switch (r.below(12)) {
    case 0: s += "\\\""; break; case 1: s += "\"\""; break; case 2: s += "\\\\"; break; case 3: s += "\\n"; break;
    case 4: s += "/*"; break; case 5: s += "//"; break; case 6: if (newlines) s += "\n"; else s += " "; break;
    case 7: s.push_back((char)(0x80 + r.below(0x80))); break; case 8: s += "#"; break;
    default: s.push_back((char)('a' + r.below(26)));
    }
  }
  // a trailing single backslash would escape the closing quote: that is fine for the lexer, but keep it deliberate
  return s;
}

// one lexeme; `line_end` is set when the lexeme must be followed by a newline
static std::string gen_lexeme(Rng& r, bool& line_end, bool& needs_bol, bool& no_bol) {
  line_end = false; needs_bol = false; no_bol = false;
  switch (r.weighted({18, 8, 14, 4, 6, 6, 10, 5, 4, 10, 14, 2, 3})) {
  case 0: return gen_ident(r);
  case 1: return KW[r.below(sizeof(KW) / sizeof(KW[0]))];
  case 2: return gen_digits(r, r.chance(0.2) ? r.range(10, 25) : r.range(1, 9));
  case 3: { std::string s = r.chance(0.5) ? "0x" : "0X"; size_t n = r.range(1, 16); static const char* h = "0123456789abcdefABCDEF"; for (size_t i = 0; i < n; ++i) s.push_back(h[r.below(22)]); return s; }
  case 4: return (r.chance(0.7) ? gen_digits(r, r.range(1, 12)) : std::string()) + "." + gen_digits(r, r.range(1, 12));
  case 5: { std::string s = r.chance(0.5) ? gen_digits(r, r.range(1, 6)) : gen_digits(r, r.range(1, 4)) + "." + gen_digits(r, r.range(1, 6));
            s += r.chance(0.5) ? "e" : "E"; if (r.chance(0.6)) s += r.chance(0.5) ? "+" : "-"; return s + gen_digits(r, r.range(1, 3)); }
  case 6: { static const char* pre[] = {"", "", "", "u8", "u", "U", "L"}; return std::string(pre[r.below(7)]) + "\"" + gen_string_body(r, r.chance(0.1) ? r.range(40, 300) : r.range(0, 20), r.chance(0.3)) + "\""; }
  case 7: { std::string s = "/*"; size_t n = r.range(0, 30); for (size_t i = 0; i < n; ++i) { switch (r.below(8)) { case 0: s += "*"; break; case 1: s += (s.back() == '*' ? " /" : "/"); break; case 2: s += "\""; break; case 3: s += r.chance(0.3) ? "\n" : " "; break; default: s.push_back('a' + r.below(26)); } } if (s.back() == '*' ) s += " "; return s + "*/"; }
  case 8: { line_end = true; std::string s = "//"; size_t n = r.range(0, 30); for (size_t i = 0; i < n; ++i) s.push_back(" abc\"/*#"[r.below(8)]); return s; }
  case 9: { static const char* op[] = {"==", ">=", "<=", "!=", "<>", ":=", "<<", ">>", "++", "--", "**", "&&", "||"}; return op[r.below(13)]; }
  case 10: { static const char* ch = "()+-*/%=<>!&|^~.,;@:[]{}?#'\\`"; char x = ch[r.below(29)]; if (x == '#') no_bol = true; return std::string(1, x); }
  case 11: return std::string(1, (char)(r.chance(0.5) ? 0x80 + r.below(0x80) : 1 + r.below(8)));
  default: { line_end = true; needs_bol = true; std::string s = r.chance(0.5) ? "" : std::string(r.range(1, 3), r.chance(0.5) ? ' ' : '\t'); s += "#"; size_t n = r.range(0, 20); for (size_t i = 0; i < n; ++i) s.push_back(" abc\"/*"[r.below(7)]); return s; }
  }
}

struct Lex { std::string text; bool line_end, needs_bol; bool no_bol = false; };

static std::vector<Lex> gen_soup(Rng& r, size_t n) {
  std::vector<Lex> v;
  for (size_t i = 0; i < n; ++i) {
    Lex l; l.text = gen_lexeme(r, l.line_end, l.needs_bol, l.no_bol);
    // a mid-line '#' must never start a line in any layout: keep a neutral lexeme in front of it
    if (l.no_bol && (v.empty() || v.back().line_end)) v.push_back({"q", false, false, false});
    v.push_back(l);
  }
  return v;
}

// physical layout of a lexeme list: mode 0 = one lexeme per line, 1 = everything on as few lines as possible,
// 2 = random separators. The token sequence is the same in all layouts by construction.
static std::string layout(const std::vector<Lex>& v, int mode, Rng* r) {
  std::string s; bool at_bol = true;
  for (size_t i = 0; i < v.size(); ++i) {
    if (v[i].needs_bol && !at_bol) { s += "\n"; at_bol = true; }
    s += v[i].text; at_bol = false;
    bool nl = v[i].line_end || (i + 1 < v.size() && v[i + 1].needs_bol) || mode == 0 || (mode == 2 && r && r->chance(0.2));
    if (!v[i].line_end && i + 1 < v.size() && v[i + 1].no_bol) nl = false;
    if (nl) { s += "\n"; at_bol = true; }
    else { s += (mode == 2 && r && r->chance(0.2)) ? std::string(r->range(1, 4), r->chance(0.8) ? ' ' : '\t') : std::string(" "); }
  }
  return s;
}

// small valid programs (printed output makes the compiled behaviour observable)
static std::string gen_arith(Rng& r, int d) {
  if (d <= 0 || r.chance(0.3)) {
    switch (r.below(5)) {
    // small enough that depth-2 products stay inside int64 (arithmetic on the edges belongs to C03, not claimed)
    case 0: return gen_digits(r, r.range(1, 3)).insert(0, "1");
    case 1: return "0x" + gen_digits(r, r.range(1, 3));
    case 2: return gen_digits(r, r.range(1, 5)).insert(0, "1") + "." + gen_digits(r, r.range(1, 5)) + "5";
    case 3: return "1" + gen_digits(r, r.range(0, 2)) + (r.chance(0.5) ? "e" : "E") + (r.chance(0.5) ? "+" : "-") + gen_digits(r, 1);
    default: return std::string("v") + (char)('a' + r.below(4));
    }
  }
  static const char* ops[] = {"+", "-", "*", "**"};
  std::string a = gen_arith(r, d - 1), b = gen_arith(r, d - 1); const char* op = ops[r.below(4)];
  if (std::string(op) == "**") { a = gen_digits(r, 1).insert(0, "1"); b = "2"; }
  return "(" + a + " " + op + " " + b + ")";
}
// a well typed expression: arithmetic, or one relational / shift operator on top of arithmetic
static std::string gen_expr(Rng& r, int d) {
  switch (r.below(4)) {
  case 0: { static const char* rel[] = {"==", "<=", ">=", "!=", "<>", "<", ">"}; return "(" + gen_arith(r, d - 1) + " " + rel[r.below(7)] + " " + gen_arith(r, d - 1) + ")"; }
  case 1: return std::string("(17 ") + (r.chance(0.5) ? "<<" : ">>") + " 3)";
  default: return gen_arith(r, d);
  }
}
static std::vector<Lex> gen_program(Rng& r) {
  std::vector<Lex> v; auto add = [&](const std::string& t, bool le = false, bool bol = false) { v.push_back({t, le, bol, false}); };
  add("va = 1;"); add("vb = 2;"); add("vc = 3;"); add("vd = 4;");
  size_t n = r.range(3, 25);
  for (size_t i = 0; i < n; ++i) {
    switch (r.below(10)) {
    case 0: add("print " + gen_expr(r, 2) + ";"); break;
    case 1: add(std::string("v") + (char)('a' + r.below(4)) + (r.chance(0.5) ? " = " : " := ") + "1;"); break;
    case 2: { std::string body = gen_string_body(r, r.range(0, 60), r.chance(0.2)); if (!body.empty() && body.back() == '\\') body += "x"; add("print \"" + body + "\";"); break; }
    case 3: add("/* " + std::string(r.range(0, 40), '*') + " note */"); break;
    case 4: add("// remark " + gen_ident(r), true); break;
    case 5: add("if va <= vb && vc >= 1 || vd <> 2 then print \"y\"; else print \"n\"; end if;"); break;
    case 6: add("for i in 1 to " + std::to_string(r.range(1, 3)) + " loop put i ** 2 \" \"; end loop; print;"); break;
    case 7: add("#!directive " + gen_ident(r), true, true); break;
    case 8: add("print str(" + gen_digits(r, r.range(1, 15)).insert(0, "1") + ") + \"|\" + \"" + gen_ident(r) + "\";"); break;
    default: add("print u8\"" + gen_ident(r) + "\" + L\"\\\"q\\\"\";"); break;
    }
  }
  return v;
}

static json reader_sim(const std::vector<int>& chunks, int tail, bool line) { return json{{"type", "sim"}, {"chunks", chunks}, {"tail", tail}, {"line", line}}; }

// the repository's own reader behind a caller that asks for a few bytes at a time (the parser may ask for any size up to its buffer)
struct SmallAsk : bloc::Parser::StreamReader {
  bloc::Parser::StreamReader& inner; int ask;
  SmallAsk(bloc::Parser::StreamReader& r, int n) : inner(r), ask(n) {}
  int read(bloc::Parser* p, char* buf, int max_size) override { return inner.read(p, buf, ask > 0 && ask < max_size ? ask : max_size); }
};

struct C13 : Profile {
  const char* id() const override { return "C13"; }
  const char* level() const override { return "fault_enumeration"; }
  long budget(const std::string& tier) const override { return tier == "thorough" ? 400000 : 40000; }
  std::string rule() const override {
    return "texts = generated lexeme soups / valid programs / boundary-padded long lines, printed in several physical layouts of the same "
           "token sequence; each delivered under a plan-chosen read schedule (every single split position of a text is enumerated by consecutive "
           "run numbers in 'split' mode; fixed sizes 1..2048; random multi-splits; line-oriented or not) through SimReader, or through the repo's own "
           "StringReader / apps ReadFile / include ReadFile (CRLF and long lines). Oracles: token stream == independent reference lexer; == the "
           "short-line layout delivered one line per read; for valid programs unparse text and printed output identical. A run is non-trivial when "
           "at least one multi-byte lexeme straddles a delivery cut or a line exceeds 1023 bytes under a repo reader; distinct = distinct event-trace hash.";
  }
  json components() const override { return json{{"real", {"blocc tokenizer (flex scanner, tokenizer_buf)", "Parser::next_token/pop", "Parser::parse", "Executable::run/unparse", "bloc::StringReader", "apps/read_file.cpp ReadFile", "statement_include.cpp ReadFile (via include of a memfd path)"}}, {"stub", json::array()}}; }
  std::vector<std::string> assumptions() const override { return {"source texts contain no NUL byte (the scanner is fed C strings)", "the reference lexer is hand-written from tokenizer.lex; it is cross-checked against the implementation on every short-line text"}; }
  json sample(const json& plan) const override { json s = plan; if (s.contains("text") && s["text"].get<std::string>().size() > 300) s["text"] = s["text"].get<std::string>().substr(0, 300) + "...(" + std::to_string(plan["text"].get<std::string>().size()) + " bytes)"; if (s.contains("ref_text")) s["ref_text"] = "(short-line layout of the same lexemes)"; if (s.contains("reader") && s["reader"].contains("chunks") && s["reader"]["chunks"].size() > 20) s["reader"]["chunks"] = "(" + std::to_string(s["reader"]["chunks"].size()) + " sizes)"; return s; }

  json generate(uint64_t vseed, uint64_t runno, const std::string& tier) override {
    uint64_t seed = runseed(vseed, runno);
    // split mode: groups of consecutive runs share one text (seeded by the group) and enumerate single split positions
    json plan; plan["property"] = "C13";
    uint64_t group = runno / 64, k = runno % 64;
    // the text depends on the group only -> consecutive runs enumerate schedules of the same text
    Rng g(subseed(vseed, "C13/group", group));
    int kind = (int)g.weighted({5, 4, 3, 2});  // 0 soup, 1 program, 2 padded soup, 3 repo readers
    std::vector<Lex> lx; bool program = false;
    if (kind == 1 || (kind == 3 && g.chance(0.6))) { lx = gen_program(g); program = true; }
    else lx = gen_soup(g, g.range(5, kind == 2 ? 400 : 120));
    bool padded = kind == 2 || (kind == 3 && g.chance(0.5));
    if (padded && program) {
      // many short statements in front, so that everything printed on one line crosses several 1023-byte edges
      std::vector<Lex> pad; size_t target = 1023 * g.range(1, 3) - g.range(0, 12);
      while (layout(pad, 1, nullptr).size() + 8 < target) pad.push_back({std::string("v") + (char)('a' + g.below(4)) + " = " + gen_digits(g, g.range(1, 9)).insert(0, "1") + ";", false, false, false});
      for (auto& l : lx) pad.push_back(l);
      lx = pad;
    } else if (padded) {
      // pad with neutral lexemes so that a hot lexeme lands near 1023*m
      std::vector<Lex> pad; size_t target = 1023 * g.range(1, 3) - g.range(0, 12); std::string cur;
      while (layout(pad, 1, nullptr).size() + 8 < target) pad.push_back({gen_ident(g), false, false, false});
      for (auto& l : lx) if (!l.needs_bol && !l.line_end && !l.no_bol) pad.push_back(l);
      lx = pad;
    }
    Rng r(seed);
    std::string shortl = layout(lx, 0, nullptr);
    int mode = padded ? 1 : (int)g.below(3);
    Rng lr(subseed(vseed, "C13/layout", group));
    std::string text = layout(lx, mode, &lr);
    plan["kind"] = program ? "program" : "tokens";
    plan["text"] = enc(text);
    // reference layout only when every line is short enough to be delivered whole
    bool shortok = true; { size_t b = 0; for (size_t i = 0; i <= shortl.size(); ++i) if (i == shortl.size() || shortl[i] == '\n') { if (i - b > 900) shortok = false; b = i + 1; } }
    if (shortok) plan["ref_text"] = enc(shortl);
    if (kind == 3 && program && g.chance(0.4)) {
      // line-length lattice: the first line ends exactly around a multiple of the readers' chunk size, so that the line terminator (LF, or the CR and the LF of a CRLF pair)
      // meets every position relative to a chunk edge
      Rng er(subseed(vseed, "C13/edge", runno));
      size_t L = (size_t)(er.pick(std::vector<long>{1022, 1023, 2044, 2045, 2046, 3066, 3069}) + er.range(-4, 4));
      std::string line; while (line.size() + 14 < L) line += std::string("v") + (char)('a' + er.below(4)) + " = " + gen_digits(er, er.range(1, 6)).insert(0, "1") + "; ";
      while (line.size() < L) line.push_back(' ');
      text = line + "\n" + shortl; shortok = false; plan.erase("ref_text");
      plan["text"] = enc(text); plan["edge_line"] = (long)L;
    }
    if (kind == 3) {
      static const char* rd[] = {"string", "file", "include"};
      std::string t = rd[r.below(program ? 3 : 2)];
      bool crlf = r.chance(0.5);
      if (r.chance(0.4)) { // blank lines (a CRLF pair on its own), only between lexemes
        RefLexResult lx = reflex(text); size_t nl = std::string::npos;
        for (size_t i = 0; i < text.size() && nl == std::string::npos; ++i) if (text[i] == '\n') { bool inside = false; for (auto& t : lx.tokens) if (i >= t.pos && i < t.end) { inside = true; break; } if (!inside && !lx.open_literal && !lx.open_comment) nl = i; }
        if (nl != std::string::npos) { std::string t2 = text; t2.insert(nl + 1, r.chance(0.5) ? "\n" : "\n\n"); RefLexResult l2 = reflex(t2); bool same = l2.tokens.size() == lx.tokens.size(); for (size_t i = 0; same && i < l2.tokens.size(); ++i) same = l2.tokens[i].text == lx.tokens[i].text && l2.tokens[i].code == lx.tokens[i].code; if (same) { text = t2; plan["text"] = enc(text); } } }
      int ask = t == "string" ? (int)r.pick(std::vector<long>{0, 0, 1, 2, 3, 7, 64}) : 0;
      if (crlf) { std::string c; for (char ch : text) { if (ch == '\n') c += "\r\n"; else c.push_back(ch); } plan["text"] = enc(c); plan["lf_text"] = enc(text); }
      plan["reader"] = json{{"type", t}, {"crlf", crlf}, {"ask", ask}, {"pipe", t == "file" && r.chance(0.4)}};
      return plan;
    }
    size_t len = text.size();
    switch (k < 40 ? 0 : r.below(4) + 1) {
    case 0: { // enumerate single splits: positions spread so that 40 consecutive runs of the group cover hot places first
      size_t p; auto spans = reflex(text).spans;
      if (tier == "thorough" || spans.empty()) p = len ? 1 + (k * 7919 + group) % (len > 1 ? len - 1 : 1) : 1;
      else { auto& sp = spans[(k * 31 + group) % spans.size()]; p = sp.b + 1 + (k % (sp.e - sp.b - 1 ? sp.e - sp.b - 1 : 1)); }
      plan["reader"] = reader_sim({(int)p}, 0, false); break; }
    case 1: { int s = (int)(tier == "thorough" ? r.range(1, 2048) : r.pick(std::vector<int>{1, 2, 3, 5, 7, 16, 64, 255, 1022, 1023, 1024, 2048})); plan["reader"] = reader_sim({}, s, r.chance(0.3)); break; }
    case 2: { std::vector<int> c; size_t tot = 0; while (tot < len && c.size() < 400) { int s = r.chance(0.5) ? (int)r.range(1, 8) : (int)r.range(1, 1500); c.push_back(s); tot += s; } plan["reader"] = reader_sim(c, 0, r.chance(0.3)); break; }
    case 3: plan["reader"] = reader_sim({}, 0, true); break;   // whole lines, capped by max_size
    default: plan["reader"] = reader_sim({}, 0, false); break; // as much as allowed
    }
    return plan;
  }

  ExecResult execute(const json& plan) override {
    ExecResult res; EventLog ev;
    std::string text = dec(plan.value("text", ""));
    json rd = plan.value("reader", json::object());
    std::string rtype = rd.value("type", "sim");
    std::string kind = plan.value("kind", "tokens");
    std::string lf_text = plan.contains("lf_text") ? dec(plan["lf_text"].get<std::string>()) : text;
    RefLexResult ref = reflex(lf_text);
    std::vector<Tok> reftoks; for (auto& t : ref.tokens) reftoks.push_back({t.code, t.text});

    auto make_file = [&](Capture& c) { if (write(c.fd(), text.data(), text.size()) < 0) {} lseek(c.fd(), 0, SEEK_SET); };
    std::vector<size_t> cuts;
    // the program file as a regular (seekable) file or, as `cat prog | bloc -` delivers it, through a pipe
    const bool through_pipe = rd.value("pipe", false) && text.size() < 60000;
    auto open_source = [&](Capture& c) -> FILE* { if (!through_pipe) { make_file(c); return fdopen(dup(c.fd()), "r"); } int pp[2]; if (pipe(pp) != 0) return nullptr; if (write(pp[1], text.data(), text.size()) < 0) {} close(pp[1]); ++res.probes["program_file_through_a_pipe"]; return fdopen(pp[0], "r"); };
    // ---- token stream under the planned delivery
    std::vector<Tok> toks;
    if (rtype == "sim") {
      SimReader sr(text, rd.value("chunks", std::vector<int>()), rd.value("tail", 0), rd.value("line", false));
      toks = lex_impl(sr); cuts = sr.offsets;
    } else if (rtype == "string") {
      bloc::StringReader sr0(text); SmallAsk sr(sr0, rd.value("ask", 0)); toks = lex_impl(sr); if (rd.value("ask", 0) > 0) ++res.probes["string_reader_asked_in_small_pieces"];
    } else {
      Capture c; FILE* f = rtype == "file" ? open_source(c) : (make_file(c), fdopen(dup(c.fd()), "r")); ReadFile rf(f); toks = lex_impl(rf); fclose(f);
    }
    for (auto& t : toks) ev.add(tokstr(t));
    { std::string c = "cuts:"; for (size_t o : cuts) c += std::to_string(o) + ","; ev.add(c); ev.add(rtype); }
    // probes: which lexeme classes straddled a cut
    for (size_t o : cuts) for (auto& sp : ref.spans) if (sp.b < o && o < sp.e) { ++res.probes[std::string("straddle_") + sp.cls]; res.nontrivial = true; }
    if (rtype != "sim") { size_t b = 0; for (size_t i = 0; i <= lf_text.size(); ++i) if (i == lf_text.size() || lf_text[i] == '\n') { if (i - b > 1023) { res.nontrivial = true; ++res.probes["long_line_repo_reader"]; } b = i + 1; } if (rd.value("crlf", false)) ++res.probes["crlf"]; }
    if (!cuts.empty()) { res.faults["stream_fragment"] = (long)cuts.size(); res.faulty = cuts.size() > 1; }
    // mid-line '#' right at a chunk start
    for (size_t o : cuts) if (o < lf_text.size() && lf_text[o] == '#' && o > 0 && lf_text[o - 1] != '\n') ++res.probes["midline_hash_at_chunk_start"];

    std::string d = first_diff(toks, reftoks);
    if (!d.empty()) { res.vclass = "C13/tokens-vs-reference"; res.message = d + " (impl vs reference lexer)"; }
    // ---- layout differential: short-line layout, one whole line per read
    if (res.vclass.empty() && plan.contains("ref_text")) {
      std::string st = dec(plan["ref_text"].get<std::string>());
      SimReader sr(st, {}, 0, true);
      std::vector<Tok> base = lex_impl(sr);
      std::string d2 = first_diff(toks, base);
      if (!d2.empty()) {
        // who is wrong? if the baseline disagrees with the reference lexer the reference lexer is suspect
        RefLexResult rs = reflex(st); std::vector<Tok> rt; for (auto& t : rs.tokens) rt.push_back({t.code, t.text});
        if (!first_diff(base, rt).empty()) { res.vclass = "M/harness-reflex-disagrees-on-short-lines"; res.message = first_diff(base, rt); }
        else { res.vclass = "C13/tokens-vs-layout"; res.message = d2 + " (this delivery vs short-line layout)"; }
      }
    }
    // ---- compiled program: unparse text and output identical across deliveries
    if (res.vclass.empty() && kind == "program") {
      ProgOut a, b;
      if (rtype == "sim") { SimReader sr(text, rd.value("chunks", std::vector<int>()), rd.value("tail", 0), rd.value("line", false)); a = run_program(sr); }
      else if (rtype == "string") { bloc::StringReader sr0(text); SmallAsk sr(sr0, rd.value("ask", 0)); a = run_program(sr); }
      else if (rtype == "file") { Capture c; FILE* f = open_source(c); ReadFile rf(f); a = run_program(rf); fclose(f); }
      else { // include "<memfd path>" in a trusted context
        Capture c; make_file(c); Capture out; std::string src = "include \"/proc/self/fd/" + std::to_string(c.fd()) + "\";\n";
        { bloc::Context ctx(out.fd(), out.fd()); ctx.trusted(true); bloc::StringReader sr(src); bloc::Executable* exe = nullptr;
          try { exe = bloc::Parser::parse(ctx, sr); a.parsed = exe != nullptr; } catch (bloc::ParseError& pe) { a.perr = pe.what(); }
          if (exe) { try { exe->run(); } catch (bloc::RuntimeError& re) { a.rerr = std::to_string(re.no); } fflush(ctx.ctxout()); delete exe; } }
        a.out = out.read_all(); a.unparse = "(include)";
      }
      std::string st = plan.contains("ref_text") ? dec(plan["ref_text"].get<std::string>()) : lf_text;
      { SimReader sr(st, {}, 0, true); b = run_program(sr); }
      if (rtype == "include" && !a.parsed) ev.add("P:0|include rejected");  // message holds a descriptor number
      else ev.add("P:" + std::to_string(a.parsed) + "|" + a.perr + "|" + a.out + "|" + a.rerr);
      bool inc = a.unparse == "(include)";
      if (a.parsed != b.parsed || (a.out != b.out && !(inc && !a.parsed)) || a.rerr != b.rerr || (!inc && a.unparse != b.unparse) || (!inc && a.perr != b.perr)) {
        res.vclass = "C13/program-diff";
        res.message = "parsed " + std::to_string(a.parsed) + "/" + std::to_string(b.parsed) + " perr '" + a.perr + "'/'" + b.perr + "' out '" + printable(a.out, 80) + "'/'" + printable(b.out, 80) + "'";
      }
      ++res.probes[a.parsed ? "program_compiled" : "program_rejected"];
    }
    res.trace_hash = ev.hash();
    return res;
  }

  std::vector<json> shrink(const json& plan) override {
    std::vector<json> v;
    std::string text = dec(plan.value("text", ""));
    bool has_ref = plan.contains("ref_text");
    // simpler schedules first
    json rd = plan.value("reader", json::object());
    if (rd.value("type", "") == "sim") {
      std::vector<int> c = rd.value("chunks", std::vector<int>());
      if (c.size() > 1 || rd.value("tail", 0) != 0) {
        // replace by single splits at each cut the schedule produced
        SimReader sr(text, c, rd.value("tail", 0), rd.value("line", false)); char buf[4096]; while (sr.read(nullptr, buf, 1023) > 0) {}
        for (size_t o : sr.offsets) { if (o >= text.size()) continue; json p = plan; p["reader"] = reader_sim({(int)o}, 0, false); v.push_back(p); if (v.size() > 60) break; }
      }
    }
    if (!has_ref && plan.value("kind", "") == "tokens" && !plan.contains("lf_text")) {
      // delete pieces of the text (ddmin style: halves, quarters, ... then single lines/bytes)
      size_t n = text.size();
      for (size_t piece = n / 2; piece >= 1; piece /= 2) {
        for (size_t b = 0; b + piece <= n && v.size() < 400; b += piece) {
          json p = plan; std::string t = text.substr(0, b) + text.substr(b + piece); p["text"] = enc(t);
          // keep a single split at the same relative place
          if (rd.value("type", "") == "sim") { std::vector<int> c = rd.value("chunks", std::vector<int>()); if (c.size() == 1 && (size_t)c[0] > b + piece) { c[0] -= (int)piece; p["reader"] = reader_sim(c, rd.value("tail", 0), rd.value("line", false)); } }
          v.push_back(p);
        }
        if (piece == 1) break;
      }
    } else if (has_ref) {
      // drop the layout oracle if the reference-lexer oracle alone still fails
      json p = plan; p.erase("ref_text"); v.push_back(p);
    }
    return v;
  }
};

static C13* g_c13 = new C13();
static ProfileRegistrar reg(g_c13);

} // namespace
