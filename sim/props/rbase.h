// Common machinery of the reference-interpreter based profiles.
#pragma once
#include "oracle/rharness.h"

namespace sim {

struct RBase : Profile {
  // per-property knobs / extras
  virtual GenKnobs knobs(Rng& r) const = 0;
  virtual std::string prop() const { return id(); }
  // extra statements (JSON AST) appended to the body by a property (e.g. loop lattice, call histories)
  virtual void extra_statements(Rng&, json& /*ast*/, GenProgram&) const {}
  virtual bool with_probe() const { return true; }
  // further units run after program and probe, each compiled and run on its own in the same context (a unit ended by an
  // error does not stop the history)
  virtual std::vector<std::vector<json>> extra_units(Rng&, const json& /*ast*/, GenProgram&) const { return {}; }
  virtual bool per_step_checks() const { return false; }
  virtual double cancel_rate() const { return 0.1; }

  json components() const override { return json{{"real", {"Parser::parse", "Executable::run", "statement and expression trees", "Context (control / exec stacks, temporary pool)", "FunctorManager (runtime context cache)", "vf module"}}, {"stub", json::array()}}; }
  std::vector<std::string> assumptions() const override { return {"the reference interpreter models the manual's semantics for the generated subset only (integers within +-10^6, booleans, ASCII strings, integer tables, tuples, user functions, begin/exception, for/forall/while); at most one sub-expression per expression has an observable effect, so operand evaluation order is never observed", "error identity is compared as class (error number, user name), never as message text", "after bloc_break only residue invariants and memory safety are checked"}; }
  json sample(const json& plan) const override { json s = plan; s.erase("ast"); s.erase("probe_ast"); s.erase("units_ast"); for (const char* k : {"text", "probe"}) if (s.contains(k) && s[k].get<std::string>().size() > 800) s[k] = s[k].get<std::string>().substr(0, 800) + "..."; return s; }

  // fault enumeration: the runs of one group share the program; run k of the group arms fault point (k mod points)
  virtual uint64_t group_size(const std::string& tier) const { return tier == "thorough" ? 64 : 16; }

  void fill(json& plan) const {
    plan["text"] = enc(print_program(plan["ast"]));
    if (plan.contains("probe_ast")) { std::vector<json> st; for (auto& s : plan["probe_ast"]) st.push_back(s); plan["probe"] = enc(print_statements(st)); }
    if (plan.contains("units_ast")) { json t = json::array(); for (auto& u : plan["units_ast"]) { std::vector<json> st; for (auto& s : u) st.push_back(s); t.push_back(enc(print_statements(st))); } plan["units"] = t; }
  }

  json generate(uint64_t vseed, uint64_t runno, const std::string& tier) override {
    const uint64_t gsz = group_size(tier); uint64_t group = runno / gsz, k = runno % gsz;
    Rng g(subseed(vseed, std::string(id()) + "/group", group));
    GenKnobs kn = knobs(g);
    if (with_probe()) { kn.extra_bodies = 1; kn.extra_statements = 4; }
    Rng gr(subseed(vseed, std::string(id()) + "/gen", group));
    GenProgram p = gen_program(gr, kn);
    Rng xr(subseed(vseed, std::string(id()) + "/extra", group));
    { // the property's own scenarios run first: an unhandled error in the generic part must not hide them
      size_t n0 = p.ast["body"].size();
      extra_statements(xr, p.ast, p);
      json& b = p.ast["body"];
      if (b.size() > n0 && n0 > 0) { json nb = json::array(); for (size_t i = n0; i < b.size(); ++i) nb.push_back(b[i]); for (size_t i = 0; i < n0; ++i) nb.push_back(b[i]); b = nb; } }
    json plan; plan["property"] = id(); plan["ast"] = p.ast;
    if (with_probe() && !p.extra_bodies.empty()) plan["probe_ast"] = p.extra_bodies[0];
    { Rng ur(subseed(vseed, std::string(id()) + "/units", group)); auto us = extra_units(ur, p.ast, p); if (!us.empty()) { json ua = json::array(); for (auto& u : us) { json a = json::array(); for (auto& s : u) a.push_back(s); ua.push_back(a); } plan["units_ast"] = ua; } }
    fill(plan);
    Rng fr(runseed(vseed, runno));
    // enumerated single faults first (every fault point of the program, error kinds cycling), then random fault sets, then fault-free
    static const struct { int code; const char* arg; const char* kind; } K[] = {{21, "", "rt_catchable"}, {23, "", "rt_catchable"}, {1, "MYERR", "rt_catchable"}, {22, "7", "rt_fatal"}};
    json faults = json::array();
    if (p.fault_points > 0 && k < gsz * 5 / 8) { long pt = 1 + (long)(k % (uint64_t)p.fault_points); auto& f = K[(k / (uint64_t)p.fault_points) % 4]; faults.push_back(json{{"point", pt}, {"visit", 1 + (long)((k / ((uint64_t)p.fault_points * 4)) % 2)}, {"code", f.code}, {"arg", f.arg}, {"kind", f.kind}}); }
    else if (k < gsz * 7 / 8) faults = random_faults(fr, p.fault_points, 1.0, 2);
    plan["faults"] = faults;
    plan["cancel_at"] = fr.chance(cancel_rate()) ? fr.range(1, 60) : 0;
    plan["grouping"] = "whole";
    return plan;
  }

  // model-free consistency: the program prints "SAME:<key>:<value>" lines; within one run all complete lines with the same key must carry the same value
  static std::string same_lines(const std::string& out) {
    std::map<std::string, std::string> seen; size_t b = 0;
    while (b < out.size()) { size_t e = out.find('\n', b); if (e == std::string::npos) break; std::string l = out.substr(b, e - b); b = e + 1;
      size_t p = l.find("SAME:"); if (p == std::string::npos) continue; size_t k = l.find(':', p + 5); if (k == std::string::npos) continue;
      std::string key = l.substr(p + 5, k - p - 5), val = l.substr(k + 1); auto it = seen.find(key);
      if (it == seen.end()) seen[key] = val; else if (it->second != val) return "'" + key + "' gave '" + it->second + "' and later '" + val + "'"; }
    return "";
  }
  // property specific extra oracle over the finished runs
  virtual void extra_checks(const json&, const ImplRun&, const RResult&, ExecResult&) {}

  ExecResult execute(const json& plan) override {
    ExecResult res; EventLog ev;
    auto fail = [&](const std::string& cls, const std::string& msg) { if (res.vclass.empty()) { res.vclass = cls; res.message = msg; } };
    std::vector<FaultSpec> fs = faults_of(plan);
    std::vector<std::vector<json>> units; units.push_back(program_statements(plan["ast"]));
    std::vector<std::string> texts = {dec(plan.value("text", ""))};
    if (plan.contains("probe_ast")) { std::vector<json> st; for (auto& s : plan["probe_ast"]) st.push_back(s); units.push_back(st); texts.push_back(dec(plan.value("probe", ""))); }
    if (plan.contains("units_ast")) { size_t i = 0; for (auto& u : plan["units_ast"]) { std::vector<json> st; for (auto& s : u) st.push_back(s); units.push_back(st); texts.push_back(dec(plan["units"][i++].get<std::string>())); } }
    RConfig rc; rc.faults = fs; rc.max_steps = 100000;
    RResult rr = ref_run_units(units, rc);
    long cancel_at = plan.value("cancel_at", 0L);
    // bounded liveness: a budget relative to the model's own step count, never a wall-clock timeout
    long budget = 200 + 30 * rr.steps;
    ImplRun im = impl_run(texts, fs, rr.unsupported ? 100000 : budget, cancel_at, per_step_checks());
    if (!im.rejected_units.empty()) { // follow the compiler where the manual allows rejection as well as conversion
      RConfig rc2 = rc; rc2.faults = fs; rc2.rejected_units = im.rejected_units; RResult r2 = ref_run_units(units, rc2);
      if (normalise_outcome(r2.outcome) != normalise_outcome(rr.outcome)) { ++res.probes["unit_rejected_where_conversion_is_allowed"]; rr = r2; } }
    VfHost& host = VfHost::get();
    ev.add(im.outcome); ev.add(im.out); for (auto& kv : im.store) ev.add(kv.first + "=" + kv.second);
    res.steps = im.steps;
    if (host.fired > 0) { res.faulty = true; res.nontrivial = true; for (auto& kv : host.fired_by_kind) res.faults[kv.first] += kv.second; }
    if (im.outcome.find("runtime_error") != std::string::npos) { res.nontrivial = true; ++res.probes["unit_ended_by_error"]; }
    if (cancel_at > 0 && im.steps >= cancel_at) { ++res.faults["cancel"]; res.faulty = true; res.nontrivial = true; }
    bool cancelled = cancel_at > 0 && im.steps >= cancel_at;
    auto count_pe = [](const std::string& o) { size_t n = 0, p = 0; while ((p = o.find("parse_error", p)) != std::string::npos) { ++n; p += 11; } return n; };
    if (!im.parsed && !rr.unsupported && count_pe(im.outcome) > count_pe(rr.outcome)) { ++res.probes["program_rejected"]; fail("M/harness-generated-program-rejected", im.parse_error); }
    else if (im.outcome.find("foreign_exception") != std::string::npos) fail(prop() + "/foreign-exception", im.outcome);
    else if (!im.residue.empty()) fail(prop() + "/residue", im.residue + (cancelled ? " (after bloc_break)" : "") + "; outcome " + im.outcome);
    else if (!im.uniform.empty()) fail(prop() + "/container-not-uniform", im.uniform);
    else if (!im.constants.empty()) fail(prop() + "/program-text-changed-by-running", im.constants);
    else if (!im.constraint.empty()) fail(prop() + "/type-constraint-broken", im.constraint);
    else if (!cancelled && !same_lines(im.out).empty()) fail(prop() + "/same-call-gives-another-result", same_lines(im.out));
    else if (rr.unsupported) { ++res.probes["model_unsupported"]; ++res.probes["model_unsupported: " + rr.unsupported_why.substr(0, 60)]; ev.add("unsupported:" + rr.unsupported_why); }
    else if (cancelled) { /* only invariants */ }
    else if (im.budget_exceeded) fail(prop() + "/no-progress-within-step-budget", "statement steps " + std::to_string(im.steps) + " > budget " + std::to_string(budget) + " (model took " + std::to_string(rr.steps) + ")");
    else { std::string d = compare_with_model(im, rr); if (!d.empty()) fail(prop() + "/diverges-from-reference-interpreter", d); }
    if (res.vclass.empty() && !rr.unsupported && !cancelled) extra_checks(plan, im, rr, res);
    for (auto& o : host.objects) if (o.destroyed != 1 && res.vclass.empty()) fail(prop() + "/object-not-destroyed-exactly-once", "vf object #" + std::to_string(o.oid) + " destroyed " + std::to_string(o.destroyed) + " times");
    bloc_deinit_plugins();
    res.trace_hash = ev.hash();
    return res;
  }

  std::vector<json> shrink(const json& plan) override {
    std::vector<json> v;
    json f = plan.value("faults", json::array());
    for (size_t i = 0; i < f.size(); ++i) { json p = plan; p["faults"].erase(p["faults"].begin() + i); v.push_back(p); }
    if (plan.value("cancel_at", 0L) > 0) { json p = plan; p["cancel_at"] = 0; v.push_back(p); }
    if (plan.contains("probe_ast")) { json p = plan; p.erase("probe_ast"); p.erase("probe"); v.push_back(p); }
    if (plan.contains("probe_ast")) for (size_t i = 0; i < plan["probe_ast"].size(); ++i) { json p = plan; p["probe_ast"].erase(p["probe_ast"].begin() + i); fill(p); v.push_back(p); }
    if (plan.contains("units_ast")) for (size_t i = 0; i < plan["units_ast"].size(); ++i) { json p = plan; p["units_ast"].erase(p["units_ast"].begin() + i); fill(p); v.push_back(p); }
    for (json& a : shrink_ast(plan["ast"])) { json p = plan; p["ast"] = a; fill(p); v.push_back(p); if (v.size() > 260) break; }
    return v;
  }
};

} // namespace sim
