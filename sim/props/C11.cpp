// C11 - a rejected source text does not disturb anything that was valid before it.
// World: context A built by a valid prefix program; twin B built by running the same prefix in a
// second fresh context (not by clone). Fault = the stream of a valid program Q damaged at an
// arbitrary token (truncation at every token boundary, deletion, duplication, replacement, unbalanced
// block ends, EOF inside a string). Delivered through Parser::parse, bloc_parse_executable and the
// statement-at-a-time parser. Oracle: deep dump / function table / residue of A == B, then probe
// programs valid before behave identically on A and B.
#include "core/profile.h"
#include "core/util.h"
#include "gen/gen.h"
#include "oracle/dump.h"
#include "oracle/world.h"
#include "oracle/stepguard.h"
#include "seams/capture.h"
#include "seams/reader.h"
#include "seams/vfhost.h"
#include "ref/reflex.h"
#include "gen/damage.h"
#include <blocc/bloc_capi.h>
#include <map>
#include <fstream>
#include <sys/stat.h>
#include <unistd.h>
#include <set>
#include <cstring>

using namespace sim;

namespace {

static DumpOpts dopts() { DumpOpts o; o.objects_by_id = false; return o; }

struct Side {
  Capture cap; bloc::Context* ctx;
  std::vector<bloc::Executable*> exes;   // kept alive until the end (function bodies, CLI keeps statements too)
  std::vector<InteractiveRun*> iruns;
  Side() { ctx = new bloc::Context(cap.fd(), cap.fd()); ctx->trusted(true); }
  ~Side() { for (auto e : exes) delete e; for (auto r : iruns) delete r; delete ctx; }
  std::string out() { if (ctx->ctxout()) fflush(ctx->ctxout()); return cap.read_all(); }
};

// parse+run a whole text; returns "ok" / outcome string
static std::string feed_whole(Side& s, const std::string& text, bool* rejected = nullptr) {
  bloc::Executable* exe = nullptr;
  Outcome o = parse_text(*s.ctx, text, exe);
  if (rejected) *rejected = (o.kind == Outcome::PARSE_ERROR);
  if (!o.ok()) return o.str();
  s.exes.push_back(exe);
  s.ctx->returnCondition(false);
  StepGuard g(20000);
  o = run_exe(exe);
  s.ctx->returnCondition(false);
  delete s.ctx->dropReturned();
  return o.str() + (g.exceeded ? " STEP-BUDGET" : "");
}

static std::string feed_capi(Side& s, const std::string& text, bool* rejected) {
  bloc_parsing_position pos = {0, 0};
  bloc_executable* x = bloc_parse_executable(reinterpret_cast<bloc_context*>(s.ctx), text.c_str(), &pos);
  *rejected = (x == nullptr);
  if (!x) return "parse_error(" + std::to_string(bloc_errno()) + ")";
  s.exes.push_back(reinterpret_cast<bloc::Executable*>(x));
  bloc_reset_stop(reinterpret_cast<bloc_context*>(s.ctx));
  StepGuard g(20000);
  bool ok = bloc_execute(x);
  bloc_reset_stop(reinterpret_cast<bloc_context*>(s.ctx));
  bloc_value* v = bloc_drop_returned(reinterpret_cast<bloc_context*>(s.ctx)); if (v) bloc_free_value(v);
  return ok ? "ok" : "runtime_error(" + std::to_string(bloc_errno()) + ")";
}

// compare what the property guarantees: every symbol / function of the twin must be identical in A
// `names`: the variables that existed before the first damaged text (names introduced later are outside the guarantee)
static std::string compare_contexts(bloc::Context& a, bloc::Context& b, const std::set<std::string>* names = nullptr) {
  std::map<std::string, std::string> ma;
  for (auto& l : dump_symbols(a, dopts())) ma[l.substr(0, l.find(' '))] = l;
  for (auto& l : dump_symbols(b, dopts())) {
    std::string n = l.substr(0, l.find(' '));
    if (names && !names->count(n)) continue;
    auto it = ma.find(n);
    if (it == ma.end()) return "variable " + n + " vanished";
    if (it->second != l) return "variable differs: '" + printable(it->second, 160) + "' vs twin '" + printable(l, 160) + "'";
  }
  std::map<std::string, std::string> fa;
  auto key = [](const std::string& l) { return l.substr(0, l.find(")->") + 1); };
  for (auto& l : dump_functors(a, false, true)) fa[key(l)] = l;
  for (auto& l : dump_functors(b, false, true)) {
    auto it = fa.find(key(l));
    if (it == fa.end()) return "function " + key(l) + " vanished or changed signature";
    if (it->second != l) return "function differs: '" + printable(it->second, 200) + "' vs twin '" + printable(l, 200) + "'";
  }
  std::string r = check_residue(a); if (!r.empty()) return "residue: " + r;
  return "";
}

struct C11 : Profile {
  const char* id() const override { return "C11"; }
  const char* level() const override { return "fault_enumeration"; }
  long budget(const std::string& tier) const override { return tier == "thorough" ? 300000 : 8000; }
  std::string rule() const override {
    return "plan = valid prefix program (variables of every generated type, '$' name, tables, tuple, functions incl. overloads) + 1..3 rejected texts + 3 probe "
           "programs. A rejected text is a valid program Q (chosen to touch the prefix: other types assigned to existing names, existing names reused as loop "
           "iterators, forall over existing tables, redefinition of each existing function, nested blocks) whose token stream is damaged: runs of one group "
           "share Q and enumerate truncation at successive token boundaries, then token deletion/duplication/replacement/swap, stray block ends, EOF inside a "
           "string. Routes: Parser::parse, bloc_parse_executable, statement-at-a-time parser. Oracle: every symbol (value, type, flags) and function (signature, "
           "body text, cache) of an undisturbed twin identical in the disturbed context, residue invariants, probes give identical output/outcome. "
           "Non-trivial = the damaged text was rejected after at least one statement of it had been parsed; distinct = distinct event-trace hash.";
  }
  json components() const override { return json{{"real", {"Parser::parse / parseStatement / clear", "bloc_parse_executable", "Context::registerSymbol/parsingEnd (symbol backup)", "FunctorManager::createOrReplace/rollback", "per-statement parse catch blocks"}}, {"stub", json::array()}}; }
  std::vector<std::string> assumptions() const override { return {"the twin is built by re-running the prefix (not by clone), so C14 defects cannot mask C11 defects", "prefix, Q and probes contain no fault points or natural errors (the only fault is the damaged stream)"}; }
  json sample(const json& plan) const override { json s = plan; s.erase("ast"); for (const char* k : {"prefix", "q"}) if (s.contains(k) && s[k].get<std::string>().size() > 500) s[k] = s[k].get<std::string>().substr(0, 500) + "..."; return s; }

  // statements of Q that touch the prefix on purpose
  static std::vector<std::string> touchers(Rng& r, const json& ast) {
    std::vector<std::string> t = {
      "i0 = \"now a string\";", "s0 = 5;", "b0 = 1.5;", "t0 = \"x\";", "u0 = 7;",
      "for i1 in 1 to 2 loop\n  print i1;\nend loop;", "for s1 in 3 to 4 loop\n  i2 = s1;\nend loop;",
      "forall e9 in t0 loop\n  print e9;\nend loop;", "forall i2 in t1 loop\n  i2 = 1;\nend loop;",
      "begin\n  begin\n    print 1;\n  end;\nexception\nwhen others then\n  print 2;\nend;",
      "$c = 6;", "$c = $c + 1;", "while b1 loop\n  b1 = false;\nend loop;",
      "if i0 > 1 then\n  i0 = 1;\nelsif i0 < 0 then\n  i0 = 2;\nelse\n  t1 = tab(1, 1);\nend if;",
      "function g9(z) return integer is\nbegin\n  return z + 1;\nend;", "t0 = tab(2, \"s\");", "t1 = tab(2, tab(1, 0));", "u0 = tup(1.5, 2, \"x\");",
      // a type-constrained, still unqualified table gets its element type from the text; a constrained scalar is refined
      "$tq = tab(2, \"x\");", "begin\n  $tq = tab(1, 5);\nend;", "$nq = 7;",
      // another source compiled in the middle of this one (its own declarations are part of the text)
      "include \"/var/tmp/blocsim-scratch/c11-include.b\";" };
    // redefinition of each existing function with the same arity
    for (auto& f : ast["funcs"]) {
      std::string d = "function " + f["n"].get<std::string>() + "(";
      bool first = true; for (auto& p : f["params"]) { if (!first) d += ", "; first = false; d += p["n"].get<std::string>(); }
      d += ") return " + std::string(f.value("ret", "") == "int" ? "integer" : "string") + " is\nbegin\n  zz = " + (f.value("ret", "") == "int" ? std::string("41") : std::string("\"redefined\"")) + ";\n  for q in 1 to 2 loop\n    print q;\n  end loop;\n  return zz;\nend;";
      t.push_back(d); t.push_back(d);
    }
    std::vector<std::string> pick; int n = (int)r.range(2, 6);
    for (int i = 0; i < n; ++i) pick.push_back(r.pick(t));
    return pick;
  }

  static std::string damage(Rng& r, const std::string& q, int kind, size_t k, std::string& desc) { return damage_text(r, q, kind, k, desc); }

  json generate(uint64_t vseed, uint64_t runno, const std::string& tier) override {
    const uint64_t gsz = tier == "thorough" ? 256 : 32;
    uint64_t group = runno / gsz, k = runno % gsz;
    Rng g(subseed(vseed, "C11/group", group));
    GenKnobs kn; kn.fault_points = false; kn.natural_errors = false; kn.natural_error_rate = 0; kn.fault_point_rate = 0; kn.objects = g.chance(0.4);
    kn.top_statements = (int)g.range(4, 9); kn.functions = (int)g.range(1, 3); kn.max_depth = (int)g.range(1, 3); kn.returns = false; kn.extra_bodies = 3; kn.extra_statements = 5;
    GenProgram p = gen_program(g, kn);
    json plan; plan["property"] = "C11";
    std::vector<json> pre; for (auto& s : p.ast["prelude"]) pre.push_back(s); for (auto& s : p.ast["funcs"]) pre.push_back(s);
    std::string prefix = print_statements(pre) + "$c = 5;\n$tq:table;\n$nq:integer;\n";
    // an overload of the first function, so that a redefinition hits a non-last declaration
    if (!p.ast["funcs"].empty()) prefix += "function " + p.ast["funcs"][0]["n"].get<std::string>() + "(a1, a2, a3, a4, a5) return integer is\nbegin\n  return a1;\nend;\n";
    plan["prefix"] = enc(prefix);
    // Q = generated body interleaved with touchers
    std::vector<std::string> qs; for (auto& s : p.ast["body"]) qs.push_back(print_stmt(s, 0));
    for (auto& t : touchers(g, p.ast)) qs.insert(qs.begin() + g.below(qs.size() + 1), t + "\n");
    std::string q; for (auto& s : qs) q += s;
    plan["q"] = enc(q);
    json probes = json::array();
    for (auto& b : p.extra_bodies) { std::vector<json> st; for (auto& s : b) st.push_back(s); probes.push_back(enc(print_statements(st))); }
    // a probe that calls every function and reuses the names the touchers play with
    { std::string pr; for (auto& f : p.ast["funcs"]) { pr += "print " + f["n"].get<std::string>() + "("; bool first = true; for (auto& pa : f["params"]) { if (!first) pr += ", "; first = false; pr += pa.value("t", "") == "int" ? "2" : "\"p\""; } pr += ");\n"; }
      pr += "i0 = i0 + 1;\nprint i0 s0 t0 u0 $c;\nfor i1 in 1 to 2 loop\n  print i1;\nend loop;\nforall e9 in t0 loop\n  e9 = e9 + 1;\nend loop;\ndo t0.concat(3);\nprint t0;\n";
      probes.push_back(enc(pr)); }
    plan["probes"] = probes;
    // the damaged deliveries of this run
    Rng r(runseed(vseed, runno));
    size_t ntok = reflex(q).tokens.size();
    json rej = json::array();
    int nrej = k < gsz * 3 / 4 ? 1 : (int)r.range(2, 3);
    for (int i = 0; i < nrej; ++i) {
      int kind; size_t pos;
      if (i == 0 && k < gsz / 2) { kind = 0; pos = ntok ? (tier == "thorough" ? k : k * ntok / (gsz / 2)) : 0; }   // enumerate truncation points
      else { kind = (int)r.weighted({2, 3, 2, 4, 2, 3, 1, 1, 0, 0, 1.5}); pos = r.below(ntok ? ntok : 1); }
      std::string desc; std::string d = damage(r, q, kind, pos, desc);
      static const char* routes[] = {"parse", "parse", "capi", "interactive"};
      rej.push_back(json{{"text", enc(d)}, {"route", routes[r.below(4)]}, {"damage", desc}});
    }
    // an accepted redefinition in front of the rejected texts (both contexts take it): what a later rejection restores must be the accepted state, not an older one
    if (r.chance(0.3) && !p.ast["funcs"].empty()) {
      std::string acc; for (auto& f : p.ast["funcs"]) { std::string d = "function " + f["n"].get<std::string>() + "("; bool first = true; for (auto& pa : f["params"]) { if (!first) d += ", "; first = false; d += pa["n"].get<std::string>(); }
        d += ") return " + std::string(f.value("ret", "") == "int" ? "integer" : "string") + " is\nbegin\n  return " + (f.value("ret", "") == "int" ? std::string("77") : std::string("\"accepted redefinition\"")) + ";\nend;\n"; if (r.chance(0.7)) acc += d; }
      if (!acc.empty()) { json nr = json::array(); nr.push_back(json{{"text", enc(acc)}, {"route", r.chance(0.5) ? "parse" : "capi"}, {"damage", "none (accepted redefinition)"}}); for (auto& x : rej) nr.push_back(x); rej = nr; } }
    plan["rejects"] = rej;
    return plan;
  }

  ExecResult execute(const json& plan) override {
    ExecResult res; EventLog ev;
    VfHost::get().reset();
    auto fail = [&](const std::string& cls, const std::string& msg) { if (res.vclass.empty()) { res.vclass = cls; res.message = msg; } };
    const std::string prefix = dec(plan.value("prefix", ""));
    { // the source some texts include (constant content, written once per machine)
      struct stat sb; if (stat("/var/tmp/blocsim-scratch/c11-include.b", &sb) != 0) { mkdir("/var/tmp/blocsim-scratch", 0777); std::string tmp = "/var/tmp/blocsim-scratch/c11-include.b." + std::to_string((long)getpid()); { std::ofstream f(tmp); f << "function h9(z) return integer is\nbegin\n  return z * 3;\nend;\ninc9 = 1;\n"; } rename(tmp.c_str(), "/var/tmp/blocsim-scratch/c11-include.b"); } }
    Side A, B;
    std::string oa = feed_whole(A, prefix), ob = feed_whole(B, prefix);
    ev.add("prefix:" + oa);
    if (oa != "ok" || ob != "ok") { ++res.probes["prefix_not_usable"]; res.trace_hash = ev.hash(); return res; }
    { std::string d = compare_contexts(*A.ctx, *B.ctx); if (!d.empty()) { fail("M/harness-twin-differs", d); res.trace_hash = ev.hash(); return res; } }

    std::set<std::string> names;
    for (auto& l : dump_symbols(*B.ctx, dopts())) names.insert(l.substr(0, l.find(' ')));
    int idx = 0;
    for (auto& rj : plan.value("rejects", json::array())) {
      ++idx;
      std::string text = dec(rj.value("text", "")), route = rj.value("route", "parse");
      bool rejected = false; std::string o;
      if (route == "parse") o = feed_whole(A, text, &rejected);
      else if (route == "capi") o = feed_capi(A, text, &rejected);
      else {
        // one statement at a time; the statements in front of the damage run on the twin as well
        InteractiveRun* ra = new InteractiveRun(); A.iruns.push_back(ra);
        { bloc::StringReader rd(text); StepGuard g(20000); interactive_feed(*A.ctx, rd, *ra); }
        rejected = ra->parse_error.kind == Outcome::PARSE_ERROR;
        o = ra->parse_error.str() + "/" + ra->runtime_error.str() + "/executed=" + std::to_string(ra->executed);
        if (ra->parse_error.kind == Outcome::FOREIGN) fail("C11/foreign-exception-from-parser", ra->parse_error.text);
        // twin: the same driver over the intact text, stopped after the same number of statements
        if (ra->executed > 0 || !rejected) {
          InteractiveRun* rb = new InteractiveRun(); B.iruns.push_back(rb);
          std::string intact = rejected ? first_statements(text, ra->executed) : text;
          bloc::StringReader rd(intact); StepGuard g(20000); interactive_feed(*B.ctx, rd, *rb);
          if (rb->executed != ra->executed && rejected) { ++res.probes["interactive_prefix_unclear"]; res.trace_hash = ev.hash(); return res; }
          // accepted by the disturbed context only thanks to a name an earlier rejected text had introduced (the twin refuses it): the two contexts are not comparable from here on
          if (!rejected && rb->parse_error.kind == Outcome::PARSE_ERROR) { ++res.probes["accepted_only_with_names_of_rejected_text"]; res.trace_hash = ev.hash(); return res; }
        }
        ++res.probes["route_interactive"];
      }
      ev.add("reject" + std::to_string(idx) + ":" + route + ":" + o);
      if (o.find("foreign_exception") != std::string::npos) fail("C11/foreign-exception-from-parser", o);
      if (rejected) {
        ++res.faults["stream_damage_rejected"]; res.faulty = true; res.nontrivial = true;
        if (route == "capi" && bloc_strerror()[0] == '\0') fail("C11/capi-no-error-text", "bloc_parse_executable returned NULL without an error text");
      } else {
        ++res.probes["damaged_text_accepted"];
        if (route != "interactive") {
          bool rj2 = false; std::string ob2 = route == "capi" ? feed_capi(B, text, &rj2) : feed_whole(B, text, &rj2);
          if (rj2) {
            // accepted only thanks to a name an earlier rejected text had introduced: that text was not valid
            // before, and the two contexts are not comparable from here on
            ++res.probes["accepted_only_with_names_of_rejected_text"]; res.trace_hash = ev.hash(); return res;
          }
          if (ob2 != o) fail("C11/accepted-text-diverges-on-twin", o + " vs " + ob2);
        }
      }
      // the guarantee
      std::string d = compare_contexts(*A.ctx, *B.ctx, &names);
      if (!d.empty()) { fail(rejected ? "C11/context-disturbed-by-rejected-text" : "C11/contexts-diverge-after-accepted-text", "after delivery " + std::to_string(idx) + " (" + rj.value("damage", "") + ", route " + route + "): " + d); break; }
    }
    // probes: valid before, must behave identically afterwards
    if (res.vclass.empty()) {
      int pi = 0;
      for (auto& pr : plan.value("probes", json::array())) {
        ++pi; std::string text = dec(pr.get<std::string>());
        size_t a0 = A.out().size(), b0 = B.out().size();
        std::string pa = feed_whole(A, text), pb = feed_whole(B, text);
        std::string outa = A.out().substr(a0), outb = B.out().substr(b0);
        ev.add("probe" + std::to_string(pi) + ":" + pa + "|" + outa);
        if (pa != pb || outa != outb) { fail("C11/probe-behaves-differently", "probe " + std::to_string(pi) + ": " + pa + " vs twin " + pb + "; out '" + printable(outa, 120) + "' vs '" + printable(outb, 120) + "'"); break; }
        std::string d = compare_contexts(*A.ctx, *B.ctx, &names);
        if (!d.empty()) { fail("C11/contexts-diverge-after-probe", "probe " + std::to_string(pi) + ": " + d); break; }
      }
    }
    res.trace_hash = ev.hash();
    return res;
  }

  // the first n top-level statements of a printed program (statements start in column 0)
  static std::string first_statements(const std::string& text, int n) {
    // statement-at-a-time parsing consumes whole statements; top-level statements of generated texts start at
    // column 0 with a non-space character, continuation lines of compound statements are indented or are
    // 'end'/'else'/'elsif'/'exception'/'when' lines.
    std::vector<size_t> starts; size_t b = 0;
    while (b < text.size()) {
      size_t e = text.find('\n', b); if (e == std::string::npos) e = text.size();
      std::string line = text.substr(b, e - b);
      auto begins = [&](const char* w) { return line.compare(0, strlen(w), w) == 0; };
      if (!line.empty() && line[0] != ' ' && !begins("end") && !begins("else") && !begins("elsif") && !begins("exception") && !begins("when") && !begins("begin")) starts.push_back(b);
      else if (begins("begin") && (starts.empty() || !prev_is_function(text, starts.back(), b))) starts.push_back(b);
      b = e + 1;
    }
    if ((size_t)n >= starts.size()) return text;
    return text.substr(0, starts[n]);
  }
  static bool prev_is_function(const std::string& text, size_t last_start, size_t here) {
    // a 'begin' line directly following a 'function ... is' line belongs to that function
    std::string seg = text.substr(last_start, here - last_start);
    return seg.compare(0, 9, "function ") == 0 && seg.find('\n') == seg.size() - 1;
  }

  std::vector<json> shrink(const json& plan) override {
    std::vector<json> v;
    json rj = plan.value("rejects", json::array());
    for (size_t i = 0; rj.size() > 1 && i < rj.size(); ++i) { json p = plan; p["rejects"].erase(p["rejects"].begin() + i); v.push_back(p); }
    json pr = plan.value("probes", json::array());
    for (size_t i = 0; i < pr.size(); ++i) { json p = plan; p["probes"].erase(p["probes"].begin() + i); v.push_back(p); }
    // drop lines of the rejected texts and of the prefix (line-level ddmin)
    auto drop_lines = [&](const std::string& text, std::vector<std::string>& out) {
      std::vector<std::string> lines; size_t b = 0; while (b < text.size()) { size_t e = text.find('\n', b); if (e == std::string::npos) e = text.size() - 1; lines.push_back(text.substr(b, e - b + 1)); b = e + 1; }
      for (size_t piece = lines.size() / 2; piece >= 1; piece /= 2) { for (size_t s = 0; s + piece <= lines.size() && out.size() < 120; s += piece) { std::string t; for (size_t i = 0; i < lines.size(); ++i) if (i < s || i >= s + piece) t += lines[i]; out.push_back(t); } if (piece == 1) break; }
    };
    for (size_t i = 0; i < rj.size(); ++i) { std::vector<std::string> c; drop_lines(dec(rj[i].value("text", "")), c); for (auto& t : c) { json p = plan; p["rejects"][i]["text"] = enc(t); p["rejects"][i]["damage"] = rj[i].value("damage", "") + " (shrunk)"; v.push_back(p); } }
    { std::vector<std::string> c; drop_lines(dec(plan.value("prefix", "")), c); for (auto& t : c) { json p = plan; p["prefix"] = enc(t); v.push_back(p); } }
    for (size_t i = 0; i < pr.size(); ++i) { std::vector<std::string> c; drop_lines(dec(pr[i].get<std::string>()), c); for (auto& t : c) { json p = plan; p["probes"][i] = enc(t); v.push_back(p); } }
    for (size_t i = 0; i < rj.size(); ++i) if (rj[i].value("route", "") != "parse") { json p = plan; p["rejects"][i]["route"] = "parse"; v.push_back(p); }
    return v;
  }
};

static ProfileRegistrar reg(new C11());

} // namespace
