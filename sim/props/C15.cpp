// C15 - the C API honours its ownership and result contract for every call sequence.
// World: host calling only blocc/bloc_capi.h. A handle/ownership state-machine model predicts every
// return value and out-parameter; AddressSanitizer watches reads through library-owned pointers inside
// their validity window; after the host has freed everything it owns the in-process LeakSanitizer must
// find nothing. Faults: texts that fail to parse (every class the catalogue reaches, with and without a
// position out-parameter), runtime errors, bloc_break at statement #k, purge, re-use after errors.
#include "core/profile.h"
#include "core/util.h"
#include "oracle/stepguard.h"
#include "oracle/dump.h"
#include "seams/capture.h"
#include "seams/sanreports.h"
#include "seams/vfhost.h"
#include "gen/gen.h"
#include "gen/damage.h"
#include <blocc/bloc_capi.h>
#include <cmath>
#include <cstring>
#include <map>
#include <memory>
#include <typeinfo>

extern "C" int __lsan_do_recoverable_leak_check() __attribute__((weak));

using namespace sim;

namespace {

// ---- model of a value
struct MV {
  int major = 0; unsigned ndim = 0; bool null = true; bool known = true;
  bool b = false; long long i = 0; double d = 0; std::string s;  // payload of scalars (s: literal / bytes)
  std::vector<long long> tab;                                      // table of integers (ndim 1)
  std::string str() const {
    if (!known) return "?";
    std::string t = std::to_string(major) + "/" + std::to_string(ndim) + (null ? ":null" : ":");
    if (null) return t;
    switch (major) { case BOOLEAN: return t + (b ? "T" : "F"); case INTEGER: if (ndim) { for (auto x : tab) t += std::to_string(x) + ","; return t; } return t + std::to_string(i); case NUMERIC: return t + std::to_string(d); case LITERAL: case TABCHAR: return t + printable(s, 40); default: return t; }
  }
};

static MV mv_bool(bool v) { MV m; m.major = BOOLEAN; m.null = false; m.b = v; return m; }
static MV mv_int(long long v) { MV m; m.major = INTEGER; m.null = false; m.i = v; return m; }
static MV mv_num(double v) { MV m; m.major = NUMERIC; m.null = false; m.d = v; return m; }
static MV mv_str(const std::string& v) { MV m; m.major = LITERAL; m.null = false; m.s = v; return m; }
static MV mv_raw(const std::string& v) { MV m; m.major = TABCHAR; m.null = false; m.s = v; return m; }
static MV mv_null(int major) { MV m; m.major = major; m.null = true; return m; }
static MV mv_tab(const std::vector<long long>& t) { MV m; m.major = INTEGER; m.ndim = 1; m.null = false; m.tab = t; return m; }

struct MCtx {
  bloc_context* h = nullptr; std::unique_ptr<Capture> cap; bool alive = false; bool stop_pending = false;
  std::map<std::string, MV> vars; std::map<std::string, bloc_symbol*> syms;
  std::map<std::string, bool> funcs;
  int parent = -1; long born = 0; int out_of = -1;   // out_of: index of the context whose capture receives the output
};
struct MExe { bloc_executable* h = nullptr; int ctx = -1; int prog = -1; bool usable = true; long born = 0; bool dead = false; };
struct MExp { bloc_expression* h = nullptr; int ctx = -1; int idx = -1; bool usable = true; };
struct MVal { bloc_value* h = nullptr; MV m; };

// ---- catalogue of programs with known effects
struct Prog { const char* text; int kind; };   // kind: 0 ok, 1 parse error, 2 runtime error
enum { P_OK = 0, P_PARSE = 1, P_RT = 2 };

struct Host {
  ExecResult& res; EventLog& ev;
  std::vector<MCtx> ctxs; std::vector<MExe> exes; std::vector<MExp> exps; std::vector<MVal> vals;
  Host(ExecResult& r, EventLog& e) : res(r), ev(e) {}
  void fail(const std::string& cls, const std::string& msg) { if (res.vclass.empty()) { res.vclass = cls; res.message = msg; } }

  // compare a library value with the model through the public accessors only
  void check_value(bloc_value* v, const MV& m, const std::string& what) {
    if (!v) { fail("C15/null-value-pointer", what); return; }
    if (!m.known) { (void)bloc_value_type(v); (void)bloc_value_isnull(v); return; }
    bloc_type t = bloc_value_type(v);
    if ((int)t.major != m.major || t.ndim != m.ndim) { fail("C15/value-type-differs", what + ": type " + std::to_string(t.major) + "/" + std::to_string(t.ndim) + " model " + m.str()); return; }
    bool isnull = bloc_value_isnull(v) == bloc_true;
    if (isnull != m.null) { fail("C15/value-nullness-differs", what + ": isnull=" + std::to_string(isnull) + " model " + m.str()); return; }
    // every typed accessor succeeds exactly on the matching type, and yields NULL data for a null value
    { bloc_bool* p = (bloc_bool*)0x1; bool ok = bloc_boolean(v, &p) == bloc_true; bool want = m.major == BOOLEAN && m.ndim == 0; if (ok != want) fail("C15/accessor-type-rule", what + ": bloc_boolean returned " + std::to_string(ok) + " on " + m.str()); else if (ok) { if (m.null ? p != nullptr : (p == nullptr || (*p == bloc_true) != m.b)) fail("C15/accessor-data", what + ": bloc_boolean data, model " + m.str()); } }
    { int64_t* p = (int64_t*)0x1; bool ok = bloc_integer(v, &p) == bloc_true; bool want = m.major == INTEGER && m.ndim == 0; if (ok != want) fail("C15/accessor-type-rule", what + ": bloc_integer returned " + std::to_string(ok) + " on " + m.str()); else if (ok) { if (m.null ? p != nullptr : (p == nullptr || *p != m.i)) fail("C15/accessor-data", what + ": bloc_integer data " + (p ? std::to_string(*p) : std::string("NULL")) + ", model " + m.str()); } }
    { double* p = (double*)0x1; bool ok = bloc_numeric(v, &p) == bloc_true; bool want = m.major == NUMERIC && m.ndim == 0; if (ok != want) fail("C15/accessor-type-rule", what + ": bloc_numeric returned " + std::to_string(ok) + " on " + m.str()); else if (ok) { if (m.null ? p != nullptr : (p == nullptr || *p != m.d)) fail("C15/accessor-data", what + ": bloc_numeric data, model " + m.str()); } }
    { const char* p = (const char*)0x1; bool ok = bloc_literal(v, &p) == bloc_true; bool want = m.major == LITERAL && m.ndim == 0; if (ok != want) fail("C15/accessor-type-rule", what + ": bloc_literal returned " + std::to_string(ok) + " on " + m.str()); else if (ok) { if (m.null ? p != nullptr : (p == nullptr || m.s != p)) fail("C15/accessor-data", what + ": bloc_literal data, model " + m.str()); } }
    { const char* p = (const char*)0x1; unsigned len = 777; bool ok = bloc_tabchar(v, &p, &len) == bloc_true; bool want = m.major == TABCHAR && m.ndim == 0; if (ok != want) fail("C15/accessor-type-rule", what + ": bloc_tabchar returned " + std::to_string(ok) + " on " + m.str()); else if (ok) { if (m.null ? p != nullptr : (len != m.s.size() || (len && memcmp(p, m.s.data(), len) != 0))) fail("C15/accessor-data", what + ": bloc_tabchar data, model " + m.str()); } }
    { bloc_array* a = nullptr; bool ok = bloc_table(v, &a) == bloc_true; bool want = m.ndim > 0; if (ok != want) fail("C15/accessor-type-rule", what + ": bloc_table returned " + std::to_string(ok) + " on " + m.str());
      else if (ok && !m.null && m.major == INTEGER) {
        if (!a || bloc_array_size(a) != m.tab.size()) fail("C15/accessor-data", what + ": table size"); else {
          for (unsigned k = 0; k < m.tab.size(); ++k) { bloc_value* it = nullptr; if (bloc_array_item(a, k, &it) != bloc_true || !it) { fail("C15/accessor-data", what + ": array item"); break; } int64_t* ip = nullptr; if (bloc_integer(it, &ip) != bloc_true || !ip || *ip != m.tab[k]) { fail("C15/accessor-data", what + ": array item value"); break; } }
          bloc_value* it = (bloc_value*)0x1; if (bloc_array_item(a, (unsigned)m.tab.size(), &it) == bloc_true) fail("C15/accessor-data", what + ": array item beyond the end accepted");
        } } }
    { bloc_row* r = nullptr; bool ok = bloc_tuple(v, &r) == bloc_true; bool want = m.major == ROWTYPE && m.ndim == 0; if (ok != want) fail("C15/accessor-type-rule", what + ": bloc_tuple returned " + std::to_string(ok) + " on " + m.str()); }
    { bloc_pair* p = nullptr; bool ok = bloc_imaginary(v, &p) == bloc_true; bool want = m.major == IMAGINARY && m.ndim == 0; if (ok != want) fail("C15/accessor-type-rule", what + ": bloc_imaginary returned " + std::to_string(ok) + " on " + m.str()); }
  }
};

// effects of catalogue programs on the model (all independent of interleaving: they read only what they set or the named inputs)
struct Cat {
  std::string text; int kind; int err;       // expected bloc_errno for kind != ok (0 = any non-zero)
  std::function<void(MCtx&)> effect;          // applied when the run succeeds (or partially, for runtime errors)
  std::function<bool(const MCtx&)> usable;    // precondition over the model (e.g. variable must exist as integer)
  MV returned; bool has_return = false; std::string out;
};

static bool has_int(const MCtx& c, const char* n) { auto it = c.vars.find(n); return it != c.vars.end() && it->second.known && it->second.major == INTEGER && it->second.ndim == 0 && !it->second.null && it->second.i > -1000000000000LL && it->second.i < 1000000000000LL; }   // arithmetic on the edges of int64 belongs to C03 (not claimed)
static bool any(const MCtx&) { return true; }

static std::vector<Cat> catalogue() {
  std::vector<Cat> c;
  auto ok = [&](const std::string& t, std::function<void(MCtx&)> e, std::function<bool(const MCtx&)> u = any) { Cat x; x.text = t; x.kind = P_OK; x.err = 0; x.effect = e; x.usable = u; c.push_back(x); return &c.back(); };
  ok("A = 5;\n", [](MCtx& m) { m.vars["A"] = mv_int(5); });
  ok("A = 7, B = true;\n", [](MCtx& m) { m.vars["A"] = mv_int(7); m.vars["B"] = mv_bool(true); });
  ok("L = \"hello\" + \" \" + \"world\";\n", [](MCtx& m) { m.vars["L"] = mv_str("hello world"); });
  ok("N = 2.5;\nX = raw(\"ab\");\n", [](MCtx& m) { m.vars["N"] = mv_num(2.5); m.vars["X"] = mv_raw("ab"); });
  ok("T = tab(3, 7);\ndo T.put(1, 9);\n", [](MCtx& m) { m.vars["T"] = mv_tab({7, 9, 7}); });
  ok("A = A + 1;\n", [](MCtx& m) { m.vars["A"].i += 1; }, [](const MCtx& m) { return has_int(m, "A"); });
  ok("for I in 1 to 3 loop A = A + I; end loop;\n", [](MCtx& m) { m.vars["A"].i += 6; m.vars["I"] = mv_int(3); }, [](const MCtx& m) { return has_int(m, "A"); });
  ok("L = str();\nN = num();\nA = int();\n", [](MCtx& m) { m.vars["L"] = mv_null(LITERAL); m.vars["N"] = mv_null(NUMERIC); m.vars["A"] = mv_null(INTEGER); });
  { Cat* x = ok("A = 41;\nreturn A + 1;\n", [](MCtx& m) { m.vars["A"] = mv_int(41); }); x->has_return = true; x->returned = mv_int(42); }
  { Cat* x = ok("return \"done\";\n", [](MCtx&) {}); x->has_return = true; x->returned = mv_str("done"); }
  { Cat* x = ok("return 1.5;\nA = 99;\n", [](MCtx&) {}); x->has_return = true; x->returned = mv_num(1.5); }
  { Cat* x = ok("print \"out\" 1;\n", [](MCtx&) {}); x->out = "out1\n"; }
  ok("function FA(P) return integer is\nbegin\n  Q = P + 1;\n  return Q;\nend;\n", [](MCtx& m) { m.funcs["FA"] = true; });
  ok("A = FA(10);\n", [](MCtx& m) { m.vars["A"] = mv_int(11); }, [](const MCtx& m) { return m.funcs.count("FA") > 0; });
  // the same function declared by a second executable with another frame layout: running the executables alternately re-installs each body
  ok("function FA(P) return integer is\nbegin\n  Q = P + 1;\n  R1 = Q * 2;\n  R2 = str(R1) + \"x\";\n  R3 = tab(2, Q);\n  for R4 in 1 to 2 loop\n    R5 = R4 + Q;\n  end loop;\n  return Q;\nend;\n", [](MCtx& m) { m.funcs["FA"] = true; });
  ok("function FA(P) return integer is\nbegin\n  Q = P + 1;\n  R1 = Q * 2;\n  R2 = str(R1) + \"y\";\n  R3 = tab(3, Q);\n  R6 = R3.count() + R1;\n  return Q;\nend;\nA = FA(30);\n", [](MCtx& m) { m.funcs["FA"] = true; m.vars["A"] = mv_int(31); });
  ok("function FA(P) return integer is\nbegin\n  return P + 1;\nend;\nA = FA(40);\n", [](MCtx& m) { m.funcs["FA"] = true; m.vars["A"] = mv_int(41); });
  ok("A = FA(20);\nA = FA(A);\n", [](MCtx& m) { m.vars["A"] = mv_int(22); }, [](const MCtx& m) { return m.funcs.count("FA") > 0; });
  // a branch that is compiled but not taken gives a variable two other types: the variable and its compile-time view stay what they were
  ok("if A > 1000000 then\n  A = \"text\";\n  A = 2.5;\nend if;\n", [](MCtx&) {}, [](const MCtx& m) { auto it = m.vars.find("A"); return it != m.vars.end() && it->second.known && !it->second.null && it->second.major == INTEGER && it->second.ndim == 0 && it->second.i <= 1000000; });
  ok("begin\n  A = 1;\n  raise OOPS;\nexception\nwhen OOPS then\n  A = 2;\nend;\n", [](MCtx& m) { m.vars["A"] = mv_int(2); });
  ok("import vf;\nO = vf(3);\nA = O.tag();\n", [](MCtx& m) { m.vars["A"] = mv_int(3); MV o; o.major = COMPLEX; o.null = false; o.known = false; m.vars["O"] = o; });
  // runtime errors: the statements in front of the error have run
  auto rt = [&](const std::string& t, int err, std::function<void(MCtx&)> e, std::function<bool(const MCtx&)> u = any) { Cat x; x.text = t; x.kind = P_RT; x.err = err; x.effect = e; x.usable = u; c.push_back(x); };
  rt("A = 3;\nA = 1 / 0;\n", 23, [](MCtx& m) { m.vars["A"] = mv_int(3); });
  rt("A = 4;\nraise OOPS;\nA = 5;\n", 1, [](MCtx& m) { m.vars["A"] = mv_int(4); });
  rt("T = tab(2, 1);\nA = T.at(5);\n", 22, [](MCtx& m) { m.vars["T"] = mv_tab({1, 1}); });
  rt("L = \"x\";\nraise OUT_OF_RANGE;\n", 21, [](MCtx& m) { m.vars["L"] = mv_str("x"); });
  rt("A = FA(1 / 0);\n", 23, [](MCtx&) {}, [](const MCtx& m) { return m.funcs.count("FA") > 0; });
  rt("T = tab(2, 1 / (3 - 3));\n", 23, [](MCtx&) {});
  rt("for I in 1 to 3 loop\n  begin\n    A = I;\n    if I == 2 then raise E2; end if;\n  exception\n  when E1 then A = 0;\n  end;\nend loop;\n", 1, [](MCtx& m) { m.vars["A"] = mv_int(2); m.vars["I"] = mv_int(2); });
  // texts that do not parse (no effect at all)
  auto pe = [&](const std::string& t) { Cat x; x.text = t; x.kind = P_PARSE; x.err = 0; x.effect = [](MCtx&) {}; x.usable = any; c.push_back(x); };
  pe("A = ;\n"); pe("A = (1 + ;\n"); pe("A = 1 +\n"); pe("begin\n  A = 1;\n"); pe("for I in 1 to 3 loop\n  A = I;\n"); pe("A = undefined_name + 1;\n");
  pe("A = 1; end;\n"); pe("function FB(P) return integer is\nbegin\n  return P +;\nend;\n"); pe("A = \"unterminated;\n");
  pe("A = T.at(;\n"); pe("A = tup(1, 2)@;\n"); pe("if A then\n"); pe("A = FA(1, 2, 3);\n"); pe("A = 1 2;\n"); pe("print A.nosuch();\n"); pe(")\n");
  pe("A = T.put(0;\n"); pe("forall E in 5 loop print E; end loop;\n"); pe("A = str(1, 2, 3, 4);\n"); pe("raise;\n"); pe("import nosuchmodule;\n"); pe("A = 99999999999999999999999;\n");
  // errors inside loops over variables the host already owns: the rejected text must give every lock and constraint back
  auto has_tab = [](const MCtx& m) { auto it = m.vars.find("T"); return it != m.vars.end() && it->second.known && it->second.ndim == 1 && !it->second.null; };
  auto pe2 = [&](const std::string& t, std::function<bool(const MCtx&)> u) { Cat x; x.text = t; x.kind = P_PARSE; x.err = 0; x.effect = [](MCtx&) {}; x.usable = u; c.push_back(x); };
  pe2("forall E in T loop\n  A = ;\nend loop;\n", has_tab); pe2("forall E in T loop end loop;\n", has_tab); pe2("forall E in T loop\n  forall F in T loop\n    A = (;\n  end loop;\nend loop;\n", has_tab);
  pe2("forall E in T loop\n  print E;\n", has_tab);
  pe2("begin\n  A = \"x\";\n  A = 1.5;\n  A = ;\nend;\n", [](const MCtx& m) { return has_int(m, "A"); }); pe2("for I in 1 to 3 loop\n  forall E in T loop\n    A = I +;\n  end loop;\nend loop;\n", has_tab);
  ok("do T.concat(4);\nforall E in T loop\n  E = E + 0;\nend loop;\n", [](MCtx& m) { m.vars["T"].tab.push_back(4); MV e; e.major = INTEGER; e.null = true; m.vars["E"] = e; }, has_tab);
  return c;
}

struct ExprCat { std::string text; int kind; int err; std::function<bool(const MCtx&)> usable; std::function<MV(const MCtx&)> value; int type_major; };
static std::vector<ExprCat> expr_catalogue() {
  std::vector<ExprCat> c;
  c.push_back({"1 + 2 * 3", P_OK, 0, any, [](const MCtx&) { return mv_int(7); }, INTEGER});
  c.push_back({"\"a\" + \"b\"", P_OK, 0, any, [](const MCtx&) { return mv_str("ab"); }, LITERAL});
  c.push_back({"A + 1", P_OK, 0, [](const MCtx& m) { return has_int(m, "A"); }, [](const MCtx& m) { return mv_int(m.vars.at("A").i + 1); }, INTEGER});
  c.push_back({"A", P_OK, 0, [](const MCtx& m) { return has_int(m, "A"); }, [](const MCtx& m) { return m.vars.at("A"); }, INTEGER});
  c.push_back({"2.5 * 2", P_OK, 0, any, [](const MCtx&) { return mv_num(5.0); }, NUMERIC});
  c.push_back({"true and false", P_OK, 0, any, [](const MCtx&) { return mv_bool(false); }, BOOLEAN});
  c.push_back({"str()", P_OK, 0, any, [](const MCtx&) { return mv_null(LITERAL); }, LITERAL});
  c.push_back({"raw(\"xyz\")", P_OK, 0, any, [](const MCtx&) { return mv_raw("xyz"); }, TABCHAR});
  c.push_back({"raw()", P_OK, 0, any, [](const MCtx&) { return mv_null(TABCHAR); }, TABCHAR});
  c.push_back({"tab(2, 4)", P_OK, 0, any, [](const MCtx&) { return mv_tab({4, 4}); }, INTEGER});
  c.push_back({"1 / 0", P_RT, 23, any, nullptr, INTEGER});
  c.push_back({"int(1.0e300)", P_RT, 21, any, nullptr, INTEGER});
  c.push_back({"tab(2, 1).at(7)", P_RT, 22, any, nullptr, INTEGER});
  c.push_back({"tab(3, 1 / (2 - 2))", P_RT, 23, any, nullptr, INTEGER});
  for (const char* t : {"1 +", "(1", "nosuchname", "1 +* 2", "tup(1)@", "\"open", "T.at(", "str(1,2,3,4)", ")", ""}) c.push_back({t, P_PARSE, 0, any, nullptr, 0});
  return c;
}

struct C15 : Profile {
  const char* id() const override { return "C15"; }
  long budget(const std::string& tier) const override { return tier == "thorough" ? 150000 : 8000; }
  bool fork_per_run() const override { return true; }
  std::string rule() const override {
    return "plan = sequence of up to 40 C API calls drawn from a handle state machine (contexts, clones, symbols, caller-owned values of every scalar type incl. typed "
           "nulls, expressions, executables) respecting the documented preconditions; executable and expression texts come from a catalogue with known effects: "
           "programs that run, fail to parse (25 texts incl. EOF-class errors, with and without the position out-parameter), raise handled / unhandled runtime "
           "errors, return values; bloc_break at statement #k, purge, clone, bloc_execute2, re-use after every error. Oracle: every return value and out-parameter == "
           "the model; library-owned pointers are re-read just before the call that ends their validity; AddressSanitizer silent; after the host freed everything "
           "it owns the in-process LeakSanitizer finds nothing. Non-trivial = the sequence went through at least one error, break or purge; distinct = distinct event-trace hash.";
  }
  json components() const override { return json{{"real", {"blocc/bloc_capi.cpp (every entry point)", "parser error paths", "Context temporary pool / returned slot", "FunctorManager runtime contexts"}}, {"stub", json::array()}}; }
  std::vector<std::string> assumptions() const override { return {"symbol names are given in upper case (Context::findSymbol documents this)", "a caller value that was passed to bloc_ctx_store_variable is only freed or re-assigned afterwards (its content is unspecified after the move)", "LeakSanitizer's reachability analysis decides 'no memory remains allocated'"}; }

  json generate(uint64_t vseed, uint64_t runno, const std::string&) override {
    Rng r(runseed(vseed, runno));
    json plan; plan["property"] = "C15";
    json ops = json::array(); int n = (int)r.range(6, 40);
    static const std::vector<double> W = {/*0 new ctx*/ 0.6, /*1 clone*/ 1, /*2 free ctx*/ 0.5, /*3 purge*/ 0.7, /*4 new value*/ 3, /*5 free value*/ 1, /*6 assign*/ 1, /*7 inspect value*/ 1.5,
                                          /*8 register+store*/ 3, /*9 find+load*/ 3, /*10 parse expr*/ 3, /*11 eval expr*/ 3, /*12 free expr*/ 0.7, /*13 parse exe*/ 5, /*14 execute*/ 5,
                                          /*15 execute2*/ 1.5, /*16 free exe*/ 0.7, /*17 drop returned*/ 1, /*18 reset stop*/ 0.5, /*19 purge working*/ 0.5, /*20 trace toggle*/ 0.2, /*21 store twice / bad store*/ 0.7, /*22 parse a damaged generated program*/ 4, /*23 assign through a loaded variable, then a script copies it*/ 1.5};
    for (int i = 0; i < n; ++i) ops.push_back(json::array({(int)r.weighted(W), (long)r.below(1000), (long)r.below(1000), (long)r.below(1000)}));
    plan["ops"] = ops;
    return plan;
  }

  ExecResult execute(const json& plan) override {
    ExecResult res; EventLog ev;
    off_t mark = stderr_mark();
    VfHost::get().reset();
    static const std::vector<Cat> CAT = catalogue();
    static const std::vector<ExprCat> ECAT = expr_catalogue();
    Host H(res, ev);
    bloc_unban_plugin("vf");   // contexts created through the C API are untrusted
    long tick = 0;
    auto newctx = [&]() { H.ctxs.emplace_back(); MCtx& c = H.ctxs.back(); c.born = ++tick; c.cap.reset(new Capture()); c.h = bloc_create_context(c.cap->fd(), c.cap->fd()); c.alive = true; return (int)H.ctxs.size() - 1; };
    newctx();
    auto pick_ctx = [&](long k) -> int { std::vector<int> a; for (size_t i = 0; i < H.ctxs.size(); ++i) if (H.ctxs[i].alive) a.push_back((int)i); if (a.empty()) return newctx(); return a[k % a.size()]; };
    // pointers whose validity ends at the next parse/run/evaluate/register/purge of their context: re-read them first
    struct Lease { int ctx; bloc_value* v; MV m; std::string what; };
    std::vector<Lease> leases;
    auto end_leases = [&](int ci) { for (auto it = leases.begin(); it != leases.end();) { if (it->ctx == ci) { H.check_value(it->v, it->m, it->what + " (last valid epoch)"); ++res.probes["library_pointer_read_in_last_valid_epoch"]; it = leases.erase(it); } else ++it; } };
    // "set": the error text is not empty; the code is the library's code for the error (0 is its code for the EOF class)
    auto errors_set = [&](const std::string& what, int want) { int no = bloc_errno(); const char* s = bloc_strerror(); if (!s || !*s) H.fail("C15/failure-without-error", what + ": errno=" + std::to_string(no) + " strerror='" + (s ? s : "(null)") + "'"); else if (want && no != want) H.fail("C15/wrong-error-code", what + ": errno=" + std::to_string(no) + " expected " + std::to_string(want)); };
    bool went_through_fault = false;

    for (auto& opj : plan.value("ops", json::array())) {
      if (!res.vclass.empty()) break;
      int op = opj[0].get<int>(); long a = opj[1].get<long>(), b = opj[2].get<long>(), c3 = opj[3].get<long>();
      ev.add("op" + std::to_string(op) + ":" + std::to_string(a) + ":" + std::to_string(b));
      if (getenv("C15_TRACE")) fprintf(stderr, "C15 op %d %ld %ld %ld (ctxs=%zu exes=%zu vals=%zu)\n", op, a, b, c3, H.ctxs.size(), H.exes.size(), H.vals.size());
      try {
      switch (op) {
      case 0: if (H.ctxs.size() < 4) newctx(); break;
      case 1: { int ci = pick_ctx(a); if (H.ctxs.size() >= 5) break; MCtx& s = H.ctxs[ci]; H.ctxs.emplace_back(); MCtx& n = H.ctxs.back(); MCtx& src = H.ctxs[ci]; (void)s;
                n.cap.reset(new Capture()); n.h = (b % 2) ? bloc_clone_context2(src.h, n.cap->fd(), n.cap->fd()) : bloc_clone_context(src.h); n.alive = n.h != nullptr; n.vars = src.vars; n.funcs = src.funcs; n.parent = ci; n.born = ++tick; n.out_of = (b % 2) ? -1 : (src.out_of >= 0 ? src.out_of : ci);
                if (!n.h) H.fail("C15/clone-returned-null", ""); ++res.probes["clones"]; break; }
      case 2: { int alive = 0; for (auto& c : H.ctxs) alive += c.alive; if (alive < 2) break; int ci = pick_ctx(a); end_leases(ci);
                // executables/expressions of that context can only be freed afterwards, unless a clone still runs them
                bloc_free_context(H.ctxs[ci].h); H.ctxs[ci].alive = false; H.ctxs[ci].h = nullptr;
                for (auto& e : H.exps) if (e.ctx == ci) e.usable = false;
                for (auto& e : H.exes) if (e.ctx == ci) e.usable = false;
                break; }
      case 3: { int ci = pick_ctx(a); end_leases(ci); bloc_ctx_purge(H.ctxs[ci].h); MCtx& c = H.ctxs[ci]; c.vars.clear(); c.syms.clear(); c.funcs.clear(); c.stop_pending = false; c.parent = -1;   // a purged clone has lost the slots of its original
                for (auto& e : H.exps) if (e.ctx == ci) e.usable = false;
                for (auto& e : H.exes) if (e.ctx == ci) { e.usable = false; e.dead = true; }   // documented: executables built with a purged context no longer work
                went_through_fault = true; ++res.faults["purge"]; break; }
      case 4: { if (H.vals.size() > 12) break; MVal v;
                switch (a % 12) {
                case 0: v.m = mv_bool(b % 2); v.h = bloc_create_boolean(b % 2 ? bloc_true : bloc_false); break;
                case 1: v.m = mv_int((long long)b - 500); v.h = bloc_create_integer(v.m.i); break;
                case 2: v.m = mv_num((double)b / 8.0); v.h = bloc_create_numeric(v.m.d); break;
                case 3: v.m = mv_str("s" + std::to_string(b)); v.h = bloc_create_literal(v.m.s.c_str()); break;
                case 4: { std::string raw = std::string("r\0x", 3) + std::to_string(b); v.m = mv_raw(raw); v.h = bloc_create_tabchar(raw.data(), (unsigned)raw.size()); break; }
                case 5: v.m = mv_null(LITERAL); v.h = bloc_create_literal(nullptr); break;
                case 6: v.m = mv_null(TABCHAR); v.h = bloc_create_tabchar(nullptr, 0); break;
                case 7: { static const int T[] = {NO_TYPE, BOOLEAN, INTEGER, NUMERIC, LITERAL, COMPLEX, TABCHAR, ROWTYPE, POINTER, IMAGINARY}; int t = T[b % 10]; v.m = mv_null(t); v.h = bloc_create_null((bloc_type_major)t); break; }
                case 8: { MV m; m.major = IMAGINARY; m.null = false; m.known = true; v.m = m; bloc_pair p = {1.5, -2.5}; v.h = bloc_create_imaginary(p); break; }
                case 9: v.m = mv_str(""); v.h = bloc_create_literal(""); break;
                case 10: v.m = mv_raw(""); v.h = bloc_create_tabchar("", 0); break;
                default: v.m = mv_int(b % 2 ? INT64_MAX : INT64_MIN); v.h = bloc_create_integer(v.m.i); break;
                }
                if (!v.h) { H.fail("C15/create-returned-null", ""); break; }
                H.check_value(v.h, v.m, "new caller value"); H.vals.push_back(v); break; }
      case 5: { if (H.vals.empty()) break; size_t k = a % H.vals.size(); bloc_free_value(H.vals[k].h); H.vals.erase(H.vals.begin() + k); break; }
      case 6: { if (H.vals.empty()) break; MVal& v = H.vals[a % H.vals.size()];
                if (b % 3 == 0) { bloc_assign_null(v.h); if (v.m.known) { v.m.null = true; } }
                else if (b % 3 == 1) { std::string s = "as" + std::to_string(c3); bool ok = bloc_assign_literal(v.h, (c3 % 5 == 0) ? nullptr : s.c_str()) == bloc_true; if (v.m.known) { bool want = v.m.ndim == 0 && (v.m.major == LITERAL || v.m.major == NO_TYPE); if (ok != want) H.fail("C15/assign-type-rule", "bloc_assign_literal returned " + std::to_string(ok) + " on " + v.m.str()); if (ok) v.m = (c3 % 5 == 0) ? mv_null(LITERAL) : mv_str(s); } else if (ok) v.m = (c3 % 5 == 0) ? mv_null(LITERAL) : mv_str(s); }
                else { std::string s = "ab" + std::to_string(c3); bool ok = bloc_assign_tabchar(v.h, (c3 % 5 == 0) ? nullptr : s.data(), (unsigned)s.size()) == bloc_true; if (v.m.known) { bool want = v.m.ndim == 0 && (v.m.major == TABCHAR || v.m.major == NO_TYPE); if (ok != want) H.fail("C15/assign-type-rule", "bloc_assign_tabchar returned " + std::to_string(ok) + " on " + v.m.str()); if (ok) v.m = (c3 % 5 == 0) ? mv_null(TABCHAR) : mv_raw(s); } else if (ok) v.m = (c3 % 5 == 0) ? mv_null(TABCHAR) : mv_raw(s); }
                break; }
      case 7: { if (H.vals.empty()) break; MVal& v = H.vals[a % H.vals.size()]; H.check_value(v.h, v.m, "caller value"); break; }
      case 8: case 21: { // register a symbol of the value's type and store the value: scripts must read it
                if (H.vals.empty()) break; int ci = pick_ctx(a); MCtx& c = H.ctxs[ci]; size_t vk = b % H.vals.size(); MVal& v = H.vals[vk];
                if (!v.m.known || v.m.major == IMAGINARY || v.m.major == POINTER || v.m.major == ROWTYPE || v.m.major == COMPLEX) break;
                static const char* names[] = {"A", "B", "L", "N", "X", "V1", "V2", "T"}; std::string name = names[c3 % 8];
                end_leases(ci);
                bloc_type t = {(bloc_type_major)v.m.major, v.m.ndim};
                bloc_symbol* s = bloc_ctx_register_symbol(c.h, name.c_str(), t);
                if (!s) { H.fail("C15/register-returned-null", name + ": " + bloc_strerror()); break; }
                c.syms[name] = s;
                if (bloc_ctx_find_symbol(c.h, name.c_str()) != s) H.fail("C15/find-symbol-differs", name);
                bool ok = bloc_ctx_store_variable(c.h, s, v.h) == bloc_true;
                if (!ok) { H.fail("C15/store-failed", name + ": " + bloc_strerror()); break; }
                c.vars[name] = v.m;
                // the caller's value stays owned by the caller; its content is unspecified after the move
                v.m.known = false;
                bloc_value* lv = bloc_ctx_load_variable(c.h, s);
                H.check_value(lv, c.vars[name], "load after store of " + name);
                leases.push_back({ci, lv, c.vars[name], "variable " + name});
                if (op == 21) { // the same (moved-from) value again: must not crash, the caller still frees it
                  (void)bloc_value_type(v.h); (void)bloc_value_isnull(v.h); ++res.probes["moved_from_value_touched"]; }
                break; }
      case 9: { int ci = pick_ctx(a); MCtx& c = H.ctxs[ci]; if (c.vars.empty()) { if (bloc_ctx_find_symbol(c.h, "NOSUCH") != nullptr) H.fail("C15/find-symbol-differs", "NOSUCH found"); break; }
                auto it = c.vars.begin(); std::advance(it, b % c.vars.size());
                bloc_symbol* s = bloc_ctx_find_symbol(c.h, it->first.c_str());
                if (!s) { H.fail("C15/find-symbol-null", it->first); break; }
                bloc_value* lv = bloc_ctx_load_variable(c.h, s);
                H.check_value(lv, it->second, "variable " + it->first + " read through the API");
                leases.push_back({ci, lv, it->second, "variable " + it->first});
                break; }
      case 10: { if (H.exps.size() > 8) break; int ci = pick_ctx(a); MCtx& c = H.ctxs[ci]; std::vector<size_t> ue; for (size_t i = 0; i < ECAT.size(); ++i) if (ECAT[i].usable(c)) ue.push_back(i); if (ue.empty()) break; size_t k = ue[b % ue.size()]; const ExprCat& e = ECAT[k];
                end_leases(ci);
                bloc_expression* x = bloc_parse_expression(c.h, (e.text + "\n").c_str());
                if (e.kind == P_PARSE) { went_through_fault = true; ++res.faults["expression_parse_error"]; if (x) { H.fail("C15/bad-expression-accepted", e.text); bloc_free_expression(x); } else errors_set("bloc_parse_expression('" + e.text + "')", 0); break; }
                if (!x) { H.fail("C15/expression-rejected", e.text + ": " + bloc_strerror()); break; }
                if (e.kind == P_OK && e.type_major && (int)bloc_expression_type(c.h, x).major != e.type_major) H.fail("C15/expression-type-differs", e.text);
                H.exps.push_back({x, ci, (int)k, true}); break; }
      case 11: { if (H.exps.empty()) break; MExp& x = H.exps[a % H.exps.size()]; if (!x.usable || !H.ctxs[x.ctx].alive) break; MCtx& c = H.ctxs[x.ctx]; const ExprCat& e = ECAT[x.idx]; if (!e.usable(c)) break;
                end_leases(x.ctx);
                bloc_value* v = bloc_evaluate_expression(c.h, x.h);
                if (e.kind == P_RT) { went_through_fault = true; ++res.faults["expression_runtime_error"]; if (v) H.fail("C15/failing-expression-returned-value", e.text); else errors_set("bloc_evaluate_expression('" + e.text + "')", e.err); bloc_ctx_purge_working_mem(c.h); break; }
                if (!v) { H.fail("C15/evaluate-returned-null", e.text + ": " + bloc_strerror()); break; }
                MV want = e.value(c); H.check_value(v, want, "value of '" + e.text + "'");
                leases.push_back({x.ctx, v, want, "result of '" + e.text + "'"});
                break; }
      case 12: { if (H.exps.empty()) break; size_t k = a % H.exps.size(); for (auto it = leases.begin(); it != leases.end();) { if (it->ctx == H.exps[k].ctx && it->what.compare(0, 6, "result") == 0) it = leases.erase(it); else ++it; } bloc_free_expression(H.exps[k].h); H.exps.erase(H.exps.begin() + k); break; }
      case 13: { if (H.exes.size() > 8) break; int ci = pick_ctx(a); MCtx& c = H.ctxs[ci]; std::vector<size_t> us; for (size_t i = 0; i < CAT.size(); ++i) if (CAT[i].usable(c)) us.push_back(i); if (us.empty()) break; /* programs that need a function or a table the context has are picked half of the time when there are any */ std::vector<size_t> dep; for (size_t i : us) if (!CAT[i].usable(MCtx())) dep.push_back(i); size_t k = (!dep.empty() && (b / 7) % 2 == 0) ? dep[b % dep.size()] : us[b % us.size()]; const Cat& p = CAT[k];
                end_leases(ci);
                bloc_parsing_position pos = {-7, -7}; bool with_pos = c3 % 2;
                bloc_executable* x = bloc_parse_executable(c.h, p.text.c_str(), with_pos ? &pos : nullptr);
                if (p.kind == P_PARSE) { went_through_fault = true; ++res.faults[with_pos ? "parse_error_with_position" : "parse_error"]; if (x) { H.fail("C15/bad-program-accepted", p.text); bloc_free_executable(x); } else { errors_set("bloc_parse_executable('" + printable(p.text, 40) + "')", 0); std::string rs = check_residue(*reinterpret_cast<bloc::Context*>(c.h)); if (!rs.empty()) H.fail("C15/residue-after-rejected-text", rs + " after '" + printable(p.text, 40) + "'"); } break; }
                if (!x) { H.fail("C15/program-rejected", printable(p.text, 60) + ": " + bloc_strerror()); break; }
                // symbols introduced by the text exist from now on (so that clones made later have their slots)
                H.exes.push_back({x, ci, (int)k, true, ++tick}); break; }
      case 14: case 15: { if (H.exes.empty()) break; MExe& x = H.exes[a % H.exes.size()]; if ((!x.usable && op == 14) || x.dead) break; const Cat& p = CAT[x.prog];
                int ci = x.ctx;
                if (op == 15) { // run in a clone of the parsing context made after the parse
                  int cc = -1; for (size_t i = 0; i < H.ctxs.size(); ++i) if (H.ctxs[i].alive && H.ctxs[i].parent == x.ctx && H.ctxs[i].born > x.born) cc = (int)i;
                  if (cc < 0) break; ci = cc; ++res.probes["execute2_in_clone"]; }
                else if (!H.ctxs[ci].alive) break;
                if (!H.ctxs[ci].alive) break; MCtx& c = H.ctxs[ci]; if (!p.usable(c)) break;
                if (getenv("C15_TRACE")) fprintf(stderr, "C15   run prog %d in ctx %d (exe ctx %d): %s\n", x.prog, ci, x.ctx, printable(p.text, 50).c_str());
                end_leases(ci);
                bloc_reset_stop(c.h); c.stop_pending = false;
                Capture& outcap = *H.ctxs[c.out_of >= 0 ? c.out_of : ci].cap;
                size_t out0 = outcap.read_all().size();
                long break_at = (c3 % 7 == 0) ? 1 + (c3 / 7) % 6 : 0; bool broke = false;
                bool ok;
                { StepGuard g(5000); long n = 0; g.extra = [&](bloc::Context&, const bloc::Statement*) { if (break_at && ++n == break_at) { bloc_break(c.h); broke = true; } };
                  ok = (op == 15 ? bloc_execute2(c.h, x.h) : bloc_execute(x.h)) == bloc_true; }
                if (broke) { // the documentation only promises that the run stops; what ran is unspecified
                  went_through_fault = true; ++res.faults["break"]; for (auto& kv : c.vars) kv.second.known = false; if (p.effect) { MCtx tmp; tmp.vars = c.vars; tmp.funcs = c.funcs; p.effect(tmp); for (auto& kv : tmp.vars) if (!c.vars.count(kv.first)) { MV u = kv.second; u.known = false; c.vars[kv.first] = u; } c.funcs = tmp.funcs; }
                  bloc_reset_stop(c.h); bloc_value* rv = bloc_drop_returned(c.h); if (rv) bloc_free_value(rv); if (!ok) bloc_ctx_purge_working_mem(c.h); break; }
                if (p.kind == P_RT) { went_through_fault = true; ++res.faults["runtime_error"]; if (ok) H.fail("C15/failing-run-returned-true", printable(p.text, 60)); else errors_set("bloc_execute('" + printable(p.text, 40) + "')", p.err); p.effect(c); }
                else { if (!ok) { H.fail("C15/run-failed", printable(p.text, 60) + ": " + bloc_strerror()); break; } p.effect(c); }
                if (c.h) fflush(bloc_ctx_out(c.h));
                { std::string out = outcap.read_all().substr(out0); if (p.kind == P_OK && out != p.out) H.fail("C15/output-differs", "'" + printable(out, 60) + "' vs '" + printable(p.out, 60) + "'"); }
                // variables as the script left them, read through the API
                for (auto& kv : c.vars) { bloc_symbol* s = bloc_ctx_find_symbol(c.h, kv.first.c_str()); if (!s) { H.fail("C15/find-symbol-null", kv.first + " after run"); break; } H.check_value(bloc_ctx_load_variable(c.h, s), kv.second, "variable " + kv.first + " after run of '" + printable(p.text, 30) + "'"); }
                if (p.has_return && p.kind == P_OK) { bloc_value* rv = bloc_drop_returned(c.h); if (!rv) H.fail("C15/returned-value-missing", printable(p.text, 40)); else { H.check_value(rv, p.returned, "returned value"); bloc_free_value(rv); } if (bloc_drop_returned(c.h) != nullptr) H.fail("C15/returned-value-twice", ""); c.stop_pending = true; }
                break; }
      case 22: { // a generated program damaged at a token: either rejected with an error, or accepted and freed - never run
                int ci = pick_ctx(c3); MCtx& c = H.ctxs[ci];
                Rng gr(subseed((uint64_t)a * 1000003ULL + (uint64_t)b, "C15/damaged")); GenKnobs kn; kn.top_statements = (int)gr.range(2, 8); kn.functions = (int)gr.range(0, 2); kn.max_depth = (int)gr.range(1, 3); kn.fault_points = gr.chance(0.5); kn.objects = kn.fault_points;
                GenProgram gp = gen_program(gr, kn); std::string text = print_program(gp.ast), desc;
                Rng gr2(subseed((uint64_t)a, "C15/other")); GenProgram gp2 = gen_program(gr2, kn);
                size_t ntok = reflex(text).tokens.size();
                std::string bad = damage_text(gr, text, (int)gr.weighted({3, 3, 2, 4, 2, 3, 1, 1, 2, 2}), gr.below(ntok ? ntok : 1), desc, print_program(gp2.ast));
                end_leases(ci);
                bloc_parsing_position pos = {-7, -7};
                bloc_executable* x = bloc_parse_executable(c.h, bad.c_str(), (b % 2) ? &pos : nullptr);
                if (x) { ++res.probes["damaged_text_accepted"]; bloc_free_executable(x); }
                else { went_through_fault = true; ++res.faults["damaged_text_rejected"]; errors_set("bloc_parse_executable(damaged: " + desc + ")", 0);
                       std::string rs = check_residue(*reinterpret_cast<bloc::Context*>(c.h)); if (!rs.empty()) H.fail("C15/residue-after-rejected-text", rs + " (damaged: " + desc + ")"); }
                // functions the accepted/rejected text may have declared are names of its own (f1, f2): the model does not use them
                break; }
      case 16: { if (H.exes.empty()) break; size_t k = a % H.exes.size();
                // a function body lives in its executable: keep those until the end
                if (CAT[H.exes[k].prog].text.compare(0, 8, "function") == 0) break;
                bloc_free_executable(H.exes[k].h); H.exes.erase(H.exes.begin() + k); break; }
      case 17: { int ci = pick_ctx(a); bloc_value* rv = bloc_drop_returned(H.ctxs[ci].h); if (rv) bloc_free_value(rv); break; }
      case 18: { int ci = pick_ctx(a); bloc_reset_stop(H.ctxs[ci].h); H.ctxs[ci].stop_pending = false; break; }
      case 19: { int ci = pick_ctx(a); for (auto it = leases.begin(); it != leases.end();) { if (it->ctx == ci && it->what.compare(0, 6, "result") == 0) { H.check_value(it->v, it->m, it->what + " (last valid epoch)"); it = leases.erase(it); } else ++it; } bloc_ctx_purge_working_mem(H.ctxs[ci].h); break; }
      case 23: { // the documented way to change a variable's content from the host: bloc_assign_* on the library-owned value of the variable; scripts must then read what was assigned
                int ci = pick_ctx(a); MCtx& c = H.ctxs[ci]; if (c.vars.empty()) break;
                std::vector<std::string> cand; for (auto& kv : c.vars) if (kv.second.known && kv.second.ndim == 0 && (kv.second.major == LITERAL || kv.second.major == TABCHAR) && kv.first != "ZC") cand.push_back(kv.first);
                if (cand.empty()) break; const std::string name = cand[b % cand.size()]; MV& mv = c.vars[name];
                bloc_symbol* s = bloc_ctx_find_symbol(c.h, name.c_str()); if (!s) { H.fail("C15/find-symbol-null", name); break; }
                end_leases(ci);
                bloc_value* lv = bloc_ctx_load_variable(c.h, s); if (!lv) { H.fail("C15/load-returned-null", name); break; }
                std::string nv = "hv" + std::to_string(c3); bool ok;
                if (c3 % 7 == 0) { bloc_assign_null(lv); ok = true; mv = mv_null(mv.major); }
                else if (mv.major == LITERAL) { ok = bloc_assign_literal(lv, nv.c_str()) == bloc_true; if (ok) mv = mv_str(nv); }
                else { ok = bloc_assign_tabchar(lv, nv.data(), (unsigned)nv.size()) == bloc_true; if (ok) mv = mv_raw(nv); }
                if (!ok) { H.fail("C15/assign-type-rule", "bloc_assign_* refused the matching type of variable " + name); break; }
                ++res.probes["assigned_through_loaded_variable"];
                bloc_reset_stop(c.h); c.stop_pending = false;
                std::string text = "ZC = " + name + ";\n";
                bloc_executable* x = bloc_parse_executable(c.h, text.c_str(), nullptr);
                if (!x) { H.fail("C15/program-rejected", text + ": " + bloc_strerror()); break; }
                bool ran; { StepGuard g(100); ran = bloc_execute(x) == bloc_true; }
                bloc_free_executable(x);
                if (!ran) { H.fail("C15/run-failed", text + ": " + bloc_strerror()); break; }
                c.vars["ZC"] = mv;
                for (const char* nm : {name.c_str(), "ZC"}) { bloc_symbol* s2 = bloc_ctx_find_symbol(c.h, nm); if (!s2) { H.fail("C15/find-symbol-null", nm); break; } H.check_value(bloc_ctx_load_variable(c.h, s2), c.vars[nm], std::string("variable ") + nm + " after the host assigned it and a script copied it"); }
                break; }
      case 20: { int ci = pick_ctx(a); bool on = bloc_ctx_trace(H.ctxs[ci].h) == bloc_true; (void)on; bloc_ctx_enable_trace(H.ctxs[ci].h, bloc_false); if (bloc_ctx_trace(H.ctxs[ci].h) != bloc_false) H.fail("C15/trace-flag", ""); break; }
      }
      } catch (std::exception& e) { H.fail(std::string("C15/exception-crossed-the-c-api:") + typeid(e).name(), std::string("op ") + std::to_string(op) + ": " + e.what()); break; }
        catch (...) { H.fail("C15/exception-crossed-the-c-api:unknown", "op " + std::to_string(op)); break; }
    }
    // ---- the host frees everything it owns
    leases.clear();
    for (auto& v : H.vals) bloc_free_value(v.h);
    for (auto& e : H.exps) bloc_free_expression(e.h);
    // executables after the contexts that may still run them? no: executables first needs live function shells -> free contexts last
    for (auto& c : H.ctxs) if (c.alive) { bloc_value* rv = bloc_drop_returned(c.h); if (rv) bloc_free_value(rv); }
    for (auto& c : H.ctxs) if (c.alive) { bloc_free_context(c.h); c.alive = false; }
    for (auto& e : H.exes) bloc_free_executable(e.h);
    for (auto& o : VfHost::get().objects) if (o.destroyed != 1) H.fail("C15/object-not-destroyed-exactly-once", "vf object #" + std::to_string(o.oid));
    bloc_clear_plugin_permissions();
    bloc_deinit_plugins();
    if (went_through_fault) { res.nontrivial = true; res.faulty = true; }
    // ---- no memory remains allocated
    if (res.vclass.empty() && __lsan_do_recoverable_leak_check) {
      off_t m2 = stderr_mark();
      int leaks = __lsan_do_recoverable_leak_check();
      ++res.probes["leak_checks"];
      if (leaks) {
        std::string rep = stderr_since(m2);
        // first allocation frame inside /repo
        std::string where = "?"; size_t p = rep.find(" /repo/");
        if (p != std::string::npos) { size_t ls = rep.rfind('\n', p); std::string line = rep.substr(ls + 1, rep.find('\n', p) - ls - 1); size_t in = line.find(" in "); size_t sp = line.find(" /repo/"); if (in != std::string::npos && sp != std::string::npos) { where = line.substr(in + 4, sp - in - 4); size_t par = where.find('('); if (par != std::string::npos) where = where.substr(0, par); } }
        H.fail("C15/leak@" + where, rep.substr(0, 1200));
      }
    }
    (void)mark;
    res.trace_hash = ev.hash();
    return res;
  }

  std::vector<json> shrink(const json& plan) override {
    std::vector<json> v; json ops = plan.value("ops", json::array());
    for (size_t piece = ops.size() / 2; piece >= 1; piece /= 2) { for (size_t s = 0; s + piece <= ops.size() && v.size() < 200; s += piece) { json p = plan; p["ops"].erase(p["ops"].begin() + s, p["ops"].begin() + s + piece); v.push_back(p); } if (piece == 1) break; }
    return v;
  }
};

static ProfileRegistrar reg(new C15());

} // namespace
