// C06 - loops and conditionals execute exactly the iterations the manual prescribes, and always end.
#include "props/rbase.h"

using namespace sim;

namespace {

static json ilit(long long v) { return json{{"k", "int"}, {"v", v}}; }
static json var(const std::string& n, const char* t = "int") { return json{{"k", "var"}, {"n", n}, {"t", t}}; }
static json bin(const char* op, json a, json b, const char* t = "int") { return json{{"k", "bin"}, {"op", op}, {"a", a}, {"b", b}, {"t", t}}; }
static json print(std::vector<json> es) { json a = json::array(); for (auto& e : es) a.push_back(e); return json{{"k", "print"}, {"es", a}}; }
static json slit(const std::string& s) { return json{{"k", "str"}, {"v", s}}; }

// INT64 edge as an expression that parses (the scanner has no negative literals)
static json edge(long long v) {
  const long long MAX = 9223372036854775807LL;
  if (v == -MAX - 1) return bin("-", json{{"k", "un"}, {"op", "-"}, {"a", ilit(MAX)}, {"t", "int"}}, ilit(1));
  return ilit(v);
}

struct C06 : RBase {
  const char* id() const override { return "C06"; }
  long budget(const std::string& tier) const override { return tier == "thorough" ? 400000 : 10000; }
  std::string rule() const override {
    return "plan = generated program with loop nests up to depth 3 plus 2..5 lattice loops: for-headers with first/limit in {INT64_MIN, MIN+1, -2..2, MAX-2..MAX} (equal, reversed, "
           "near the edges so that at most 12 iterations happen), step in {absent, null, 0, -1, 1, 2, 3, MAX}, asc/desc/auto, null bounds, one header expression with a visible side "
           "effect (a counting function: evaluated once), bodies that move the control variable forward, break/continue/return/raise/fault point at every body position; forall "
           "asc/desc over tables with writes through the iterator; every exit route (normal, break, return, handled and unhandled error, bloc_break). Oracle: reference interpreter - "
           "exact sequence of iterator values printed, variables after the loop, probe statements re-typing the iterator names and changing the iterated tables afterwards; bounded "
           "liveness as a statement-step budget relative to the model; residue invariants. Non-trivial = a loop was left by break/return/error/cancel or a lattice loop ran at an INT64 edge; "
           "distinct = distinct event-trace hash.";
  }
  GenKnobs knobs(Rng& r) const override {
    GenKnobs k; k.exceptions = true; k.fault_points = true; k.fault_point_rate = 0.12; k.natural_errors = true; k.natural_error_rate = 0.02;
    k.max_depth = 3; k.top_statements = (int)r.range(2, 6); k.functions = (int)r.range(0, 1); k.objects = false; k.returns = r.chance(0.15); k.loop_max_iter = 4;
    return k;
  }
  // 10 % of the groups end with a loop that cannot start (a type-protected name as forall iterator is refused at run time, outside the reference interpreter's subset):
  // the iterated table must not stay locked, whatever the loop did before it failed (residue invariants only)
  std::vector<std::vector<json>> extra_units(Rng& r, const json&, GenProgram&) const override {
    std::vector<std::vector<json>> U;
    if (r.chance(0.3)) { // a value returned at top level from a call whose body has loops: the callee runs to its own end first
      U.push_back({json{{"k", "return"}, {"e", json{{"k", "call"}, {"f", "stray6"}, {"args", json::array({ilit(r.range(0, 3))})}, {"t", "int"}}}}});
      U.push_back({print({slit("after return "), json{{"k", "call"}, {"f", "cnt"}, {"args", json::array({ilit(4)})}, {"t", "int"}}})});
      return U; }
    if (!r.chance(0.1)) return U;
    auto raw = [](const std::string& t) { return json{{"k", "rawstmt"}, {"v", t}}; };
    U.push_back({raw("lz = tab(2, 1);")});
    U.push_back({raw(r.chance(0.5) ? "forall $pz in lz loop print $pz; end loop;" : "for lk in 1 to 2 loop forall $py in lz loop print $py; end loop; end loop;")});
    U.push_back({raw("do lz.concat(3);"), raw("print lz.count();")});
    return U;
  }
  void extra_statements(Rng& r, json& ast, GenProgram&) const override {
    const long long MAX = 9223372036854775807LL, MIN = -MAX - 1;
    // the counting function: a bound expression with a visible side effect must be evaluated exactly once
    ast["funcs"].push_back(json{{"k", "func"}, {"n", "cnt"}, {"params", json::array({json{{"n", "x"}, {"t", "int"}, {"typed", true}}})}, {"ret", "int"},
      {"body", json::array({print({slit("eval"), var("x")}), json{{"k", "return"}, {"e", var("x")}}})}});
    // break / continue only act on a loop of their own context: in a callee without a running loop they do nothing, and the caller's loop goes on
    { auto cond = [&](long k, const char* what) { json i; i["k"] = "if"; i["c"] = bin(">", var("x"), ilit(k), "bool"); i["then"] = json::array({json{{"k", what}}}); i["elifs"] = json::array(); i["else"] = json::array(); return i; };
      ast["funcs"].push_back(json{{"k", "func"}, {"n", "stray6"}, {"params", json::array({json{{"n", "x"}, {"t", "int"}, {"typed", true}}})}, {"ret", "int"},
        {"body", json::array({cond(1, "break"), cond(2, "continue"), print({slit("stray6 "), var("x")}), json{{"k", "return"}, {"e", bin("+", var("x"), ilit(50))}}})}});
      if (r.chance(0.5)) { json loop{{"k", "for"}, {"n", "qs"}, {"a", ilit(1)}, {"b", ilit(3)}, {"step", nullptr}, {"dir", ""}}; loop["body"] = json::array({print({slit("s:"), json{{"k", "call"}, {"f", "stray6"}, {"args", json::array({var("qs")})}, {"t", "int"}}})}); ast["body"].push_back(loop); }
      if (r.chance(0.3)) { json w; w["k"] = "while"; w["c"] = bin("<", var("ws"), ilit(3), "bool"); w["body"] = json::array({json{{"k", "let"}, {"n", "ws"}, {"e", bin("+", var("ws"), ilit(1))}}, print({json{{"k", "call"}, {"f", "stray6"}, {"args", json::array({var("ws")})}, {"t", "int"}}})}); ast["body"].push_back(json{{"k", "let"}, {"n", "ws"}, {"e", ilit(0)}}); ast["body"].push_back(w); } }
    int n = (int)r.range(2, 5);
    for (int i = 0; i < n; ++i) {
      std::string it = "q" + std::to_string(i);
      long long a, b;
      switch (r.below(7)) {
      case 0: a = MAX - r.range(0, 3); b = MAX - r.range(0, 3); break;
      case 1: a = MIN + r.range(0, 3); b = MIN + r.range(0, 3); break;
      case 2: a = MAX - r.range(0, 2); b = MAX; break;
      case 3: a = MIN + r.range(0, 2); b = MIN; break;
      case 4: a = r.range(-2, 2); b = a; break;
      default: a = r.range(-3, 3); b = a + r.range(-6, 6); break;
      }
      json f{{"k", "for"}, {"n", it}};
      f["a"] = edge(a); f["b"] = edge(b);
      static const char* dirs[] = {"", "", "asc", "desc"}; f["dir"] = dirs[r.below(4)];
      long long stepv = 1;
      switch (r.below(9)) { case 0: f["step"] = ilit(0); stepv = 0; break; case 1: f["step"] = json{{"k", "un"}, {"op", "-"}, {"a", ilit(1)}, {"t", "int"}}; stepv = -1; break; case 2: f["step"] = ilit(2); stepv = 2; break; case 3: f["step"] = ilit(3); stepv = 3; break; case 4: f["step"] = ilit(MAX); stepv = MAX; break; case 5: f["step"] = json{{"k", "null"}, {"t", "int"}}; break; default: f["step"] = nullptr; break; }
      if (r.chance(0.08)) f[r.chance(0.5) ? "a" : "b"] = json{{"k", "null"}, {"t", "int"}};
      // one header expression with a visible effect
      bool small = a > -1000 && a < 1000 && b > -1000 && b < 1000;
      if (small && r.chance(0.4)) { const char* which = r.chance(0.5) ? "a" : "b"; if (f[which].value("k", "") == "int") f[which] = json{{"k", "call"}, {"f", "cnt"}, {"args", json::array({f[which]})}, {"t", "int"}}; }
      json body = json::array({print({slit(it + "="), var(it)})});
      bool ascending = b > a;
      // the body may move the control variable forward (never backward: that would be a legal endless loop)
      if (small && stepv >= 1 && r.chance(0.3)) body.push_back(json{{"k", "let"}, {"n", it}, {"e", bin(ascending ? "+" : "-", var(it), ilit(r.range(0, 2)))}});
      switch (r.below(7)) {
      case 0: body.push_back(json{{"k", "if"}, {"c", bin("==", var(it), edge(a + (small ? (ascending ? 1 : -1) : 0)), "bool")}, {"then", json::array({json{{"k", "break"}}})}, {"elifs", json::array()}, {"else", json::array()}}); break;
      case 1: body.push_back(json{{"k", "if"}, {"c", bin("==", var(it), edge(a), "bool")}, {"then", json::array({json{{"k", "continue"}}})}, {"elifs", json::array()}, {"else", json::array()}}); body.push_back(print({slit("after continue")})); break;
      case 2: body.push_back(json{{"k", "if"}, {"c", bin("==", var(it), edge(b), "bool")}, {"then", json::array({json{{"k", "raise"}, {"n", r.chance(0.5) ? "OUT_OF_RANGE" : "MYERR"}}})}, {"elifs", json::array()}, {"else", json::array()}}); break;
      default: break;
      }
      f["body"] = body;
      json after = print({slit("done " + it)});
      if (r.chance(0.5)) {
        json hbody = json::array(); hbody.push_back(print({slit("caught"), json{{"k", "err"}, {"i", 1}, {"t", "str"}}}));
        json handler; handler["n"] = r.chance(0.5) ? "OTHERS" : "OUT_OF_RANGE"; handler["body"] = hbody;
        json blk; blk["k"] = "begin"; blk["body"] = json::array({f, after}); blk["handlers"] = json::array({handler});
        ast["body"].push_back(blk);
      }
      else { ast["body"].push_back(f); ast["body"].push_back(after); }
    }
    // forall with writes through the iterator, both orders
    bool tables = false; for (auto& st : ast["prelude"]) if (st.value("k", "") == "let" && st.value("n", "") == "t0") tables = true;
    if (tables) {
      json fa{{"k", "forall"}, {"n", "z0"}, {"o", var("t0", "tabint")}, {"dir", r.chance(0.5) ? "desc" : ""}};
      fa["body"] = json::array({print({slit("z="), var("z0")}), json{{"k", "let"}, {"n", "z0"}, {"e", bin("+", var("z0"), ilit(r.range(1, 5)))}}});
      if (r.chance(0.4)) fa["body"].push_back(json{{"k", "if"}, {"c", bin(">", var("z0"), ilit(r.range(3, 12)), "bool")}, {"then", json::array({json{{"k", r.chance(0.5) ? "break" : "continue"}}})}, {"elifs", json::array()}, {"else", json::array()}});
      ast["body"].push_back(fa);
      ast["body"].push_back(print({var("t0", "tabint"), json{{"k", "mth"}, {"m", "at"}, {"o", var("t0", "tabint")}, {"args", json::array({ilit(0)})}, {"t", "int"}}}));
    }
  }
  // probes after the loops: iterator names take another type, iterated tables change length
  json generate(uint64_t vseed, uint64_t runno, const std::string& tier) override {
    json p = RBase::generate(vseed, runno, tier);
    if (p.contains("probe_ast")) {
      json& pr = p["probe_ast"];
      for (const char* n : {"q0", "q1", "k0", "k1", "z0", "e0"}) pr.push_back(json{{"k", "let"}, {"n", n}, {"e", slit("retyped")}});
      bool tables = false; for (auto& st : p["ast"]["prelude"]) if (st.value("k", "") == "let" && st.value("n", "") == "t0") tables = true;
      if (tables) pr.push_back(json{{"k", "do"}, {"e", json{{"k", "mth"}, {"m", "concat"}, {"o", var("t0", "tabint")}, {"args", json::array({ilit(5)})}, {"t", "tabint"}}}});
      pr.push_back(print({slit("probe done")}));
      fill(p);
    }
    return p;
  }
};

static ProfileRegistrar reg(new C06());

} // namespace
