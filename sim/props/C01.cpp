// C01 - any source text is either executed or rejected with an error; never a crash.
// The simulator's contribution: (1) monitor M is evaluated in every run of every other check; (2) this workload treats
// the source stream as the faulty medium: programs over the whole statement / operator / built-in / member vocabulary
// with arguments from a boundary lattice are damaged (byte flips, token deletion/duplication/replacement, splices of two
// programs, truncation) and delivered under seeded fragmentation through the library, the C API and the bloc command.
#include "core/profile.h"
#include "core/util.h"
#include "gen/gen.h"
#include "gen/damage.h"
#include "oracle/world.h"
#include "oracle/stepguard.h"
#include "seams/capture.h"
#include "seams/clirun.h"
#include "seams/reader.h"
#include "seams/vfhost.h"
#include <blocc/bloc_capi.h>
#include <fstream>
#include <regex>
#include <functional>
#include <sys/stat.h>

using namespace sim;

namespace {

static const char* INTS[] = {"0", "1", "(-1)", "2", "63", "64", "65", "255", "256", "4294967296", "4294967297", "9223372036854775807", "(-9223372036854775807 - 1)", "int()", "(-9223372036854775807)"};
static const char* DECS[] = {"0.0", "(-0.0)", "1.5", "(-2.5)", "1.0e308", "1.0e-320", "(1.0e308 * 10.0)", "(-(1.0e308 * 10.0))", "((1.0e308 * 10.0) - (1.0e308 * 10.0))", "num()", "9223372036854775807.0", "0.30000000000000004", "4.9e-324"};
static const char* STRS[] = {"\"\"", "\"a\"", "\"abc def\"", "\" 12 \"", "\"0x1F\"", "\"1e5\"", "str()", "\"12abc\"", "\"-\"", "\"\\\"q\\\"\"", "\"a\\nb\"", "\"%s%n\"", "\"\\\\\""};
static const char* RAWS[] = {"raw()", "raw(0, null)", "raw(\"ab\")", "raw(3, 255)", "raw(2, null)", "b64dec(\"YQ==\")"};
static const char* BOOLS[] = {"true", "false", "bool()", "on", "off"};
static const char* NULLS[] = {"null", "tab()", "tup()"};
static const char* TABS[] = {"tab(0, 1)", "tab(3, 1)", "tab(2, \"s\")", "tab(2, tab(1, 1))", "tab(1, tup(1, \"x\"))", "tab()", "tab(2, 1.5)", "tab(1, raw(\"a\"))", "tab(2, int())", "tab(1, true)"};
static const char* TUPS[] = {"tup(1, \"x\")", "tup(int(), str())", "tup()", "tup(1.5, true, raw(\"a\"))", "tup(1)"};
static const char* CPLX[] = {"ii", "(1 + 2 * ii)", "(0 * ii)"};
static const char* BUILTINS[] = {"max", "min", "floor", "abs", "sign", "str", "num", "ceil", "round", "sin", "cos", "tan", "atan", "int", "pow", "sqrt", "log", "exp", "log10", "mod", "asin", "acos", "sinh", "cosh", "tanh",
  "clamp", "isnull", "atan2", "hex", "isnum", "raw", "tab", "tup", "bool", "lsubstr", "rsubstr", "substr", "chr", "strlen", "ltrim", "rtrim", "trim", "upper", "lower", "strpos", "replace", "subraw", "hash", "imag", "iphase", "iconj",
  "tokenize", "b64enc", "b64dec", "typeof"};
static const char* BINOPS[] = {"+", "-", "*", "/", "%", "**", "&", "|", "^", "<<", ">>", "==", "!=", "<", "<=", ">", ">=", "and", "or", "xor", "matches", "power", "&&", "||", "<>"};
static const char* UNOPS[] = {"-", "~", "not ", "!", "+"};
static const char* METHODS[] = {"at", "put", "insert", "delete", "concat", "count"};

static std::string value(Rng& r, int depth);

static std::string scalar(Rng& r) {
  switch (r.weighted({5, 4, 4, 2, 2, 1, 1})) {
  case 0: return INTS[r.below(sizeof(INTS) / sizeof(*INTS))]; case 1: return DECS[r.below(sizeof(DECS) / sizeof(*DECS))]; case 2: return STRS[r.below(sizeof(STRS) / sizeof(*STRS))];
  case 3: return RAWS[r.below(sizeof(RAWS) / sizeof(*RAWS))]; case 4: return BOOLS[r.below(5)]; case 5: return NULLS[r.below(3)]; default: return CPLX[r.below(3)];
  }
}
// sizes that a built-in may take as an allocation request stay below 10^4 (stack and heap exhaustion are out of the property's domain)
static std::string small_int(Rng& r) { static const char* S[] = {"0", "1", "2", "3", "255", "1000", "(-1)", "int()", "10000"}; return S[r.below(9)]; }

static std::string value(Rng& r, int depth) {
  if (depth <= 0) return r.chance(0.7) ? scalar(r) : (r.chance(0.5) ? TABS[r.below(sizeof(TABS) / sizeof(*TABS))] : TUPS[r.below(5)]);
  switch (r.weighted({3, 4, 3, 1, 2, 1, 1})) {
  case 0: return value(r, 0);
  case 1: { std::string f = BUILTINS[r.below(sizeof(BUILTINS) / sizeof(*BUILTINS))]; int n = (int)r.weighted({1, 5, 4, 2, 0.5}); std::string s = f + "(";
            for (int i = 0; i < n; ++i) { if (i) s += ", "; if ((f == "tab" || f == "raw") && i == 0) s += small_int(r); else s += value(r, depth - 1); } return s + ")"; }
  case 2: return "(" + value(r, depth - 1) + " " + BINOPS[r.below(sizeof(BINOPS) / sizeof(*BINOPS))] + " " + value(r, depth - 1) + ")";
  case 3: return std::string("(") + UNOPS[r.below(5)] + value(r, depth - 1) + ")";
  case 4: { std::string m = METHODS[r.below(6)]; int n = m == "count" ? 0 : m == "at" || m == "delete" || m == "concat" ? 1 : 2; std::string s = value(r, depth - 1) + "." + m + "("; for (int i = 0; i < n; ++i) { if (i) s += ", "; s += value(r, depth - 1); } return s + ")"; }
  case 5: return value(r, depth - 1) + "@" + std::to_string(r.pick(std::vector<long>{0, 1, 2, 3, 33, 4294967297L}));
  default: return value(r, depth - 1) + ".set@" + std::to_string(r.range(0, 3)) + "(" + value(r, depth - 1) + ")";
  }
}

// a program over the statement vocabulary whose expressions come from the lattice
static std::string vocabulary_program(Rng& r) {
  std::string s; int n = (int)r.range(2, 10);
  s += "wc2 = 0;\nva = " + scalar(r) + ";\nvt = " + TABS[r.below(sizeof(TABS) / sizeof(*TABS))] + ";\nvu = " + TUPS[r.below(5)] + ";\n";
  if (r.chance(0.12)) { // a function declared, called, declared again in the same unit with another frame layout, called again (well-formed: the calls succeed)
    int extra = (int)r.range(0, 6); std::string loc; for (int k = 0; k < extra; ++k) loc += "  l" + std::to_string(k) + " = " + (k % 2 ? "str(q) + \"x\"" : "q + " + std::to_string(k)) + ";\n";
    std::string first = "function fr(p, q:integer) return integer is\nbegin\n  return q + 1;\nend;\n", second = "function fr(p, q:integer) return integer is\nbegin\n" + loc + "  for le in 1 to 2 loop\n    lf = le + q;\n  end loop;\n  return lf;\nend;\n";
    if (r.chance(0.3)) std::swap(first, second);
    s += first + "print fr(1, 2);\n" + (r.chance(0.5) ? "print fr(\"a\", 3);\n" : "") + second + "print fr(1, 2);\nprint fr(null, 5);\n";
    if (r.chance(0.6)) return s; }   // on its own: an ill-typed statement further down would have the whole unit refused before anything runs
  if (r.chance(0.05)) { // well-formed on its own: the lock of an outer traversal after an inner traversal of the same table
    s += "vt = tab(3, 1);\nforall fa in vt loop\n  forall fb in vt loop\n    print fb;\n  end loop;\n  " + std::string(r.pick(std::vector<std::string>{"do vt.concat(fa);", "do vt.delete(0);", "vt = tab(9, 2);", "do vt.insert(0, 7);"})) + "\n  print fa;\nend loop;\n";
    return s; }
  if (r.chance(0.08)) { // errors that carry no position, as the last statement of the text
    s += std::string(r.pick(std::vector<std::string>{"import nosuchmodule;", "import nosuchmodule;\n/* tail */", "import nosuchmodule;  \n\n", "include \"/nonexistent/file.bloc\";", "forall fa in vt loop vt = tab(1, 1); end loop;", "begin function zz() return integer is begin return 1; end; end;"})) + (r.chance(0.5) ? "\n" : "");
    return s; }
  for (int i = 0; i < n; ++i) {
    std::string v = value(r, (int)r.range(1, 3));
    switch (r.below(19)) {
    // loop control variables written, re-typed, nulled or shadowed by the body; iterator names that collide with the traversed table
    case 14: s += "for fj in " + value(r, 1) + " to " + value(r, 1) + " loop\n  fj = " + v + ";\n  if wc2 > 2 then break; end if;\n  wc2 = wc2 + 1;\nend loop;\n"; break;
    case 15: { std::string it = r.pick(std::vector<std::string>{"vt", "va", "x0", "fk"}); s += "forall " + it + " in " + std::string(r.chance(0.7) ? "vt" : v) + " loop\n  print " + (r.chance(0.7) ? it : value(r, 1)) + ";\n" + (r.chance(0.5) ? "  break;\n" : "") + "end loop;\n"; break; }
    case 16: s += "forall fk in vt loop\n  fk = " + (r.chance(0.5) ? std::string(r.pick(std::vector<std::string>{"null", "int()", "str()", "tab()", "fk"})) : v) + ";\nend loop;\n"; break;
    // statements that evaluate an expression while the text is compiled
    case 17: s += std::string(r.chance(0.5) ? "include " : "import ") + value(r, 1) + ";\n"; break;
    case 18: s += "for fj in " + std::string(r.pick(std::vector<std::string>{"1 to 3", "3 to 1", "1 to 9223372036854775807", "(-9223372036854775807 - 1) to 0 desc", "1 to 3 step 2"})) + " loop\n  " + std::string(r.pick(std::vector<std::string>{"fj = int();", "fj = null;", "fj = fj - 1;\n  wc2 = wc2 + 1;\n  if wc2 > 5 then break; end if;", "fj = 9223372036854775807;", "fj = (-9223372036854775807 - 1);", "fj = fj;"})) + "\nend loop;\n"; break;
    case 0: s += "x" + std::to_string(r.below(3)) + " = " + v + ";\n"; break;
    case 1: s += "print " + v + ";\n"; break;
    case 2: s += "put " + v + " " + scalar(r) + ";\n"; break;
    case 3: s += "begin\n  x0 = " + v + ";\nexception\nwhen others then\n  print error@1 error@2 error@3;\nend;\n"; break;
    case 4: s += "if " + v + " then\n  print 1;\nelsif " + value(r, 1) + " then\n  print 2;\nelse\n  print 3;\nend if;\n"; break;
    case 5: s += "for fi in " + value(r, 1) + " to " + value(r, 1) + (r.chance(0.4) ? " step " + value(r, 1) : std::string()) + (r.chance(0.3) ? " desc" : "") + " loop\n  if fi > 3 then break; end if;\nend loop;\n"; break;
    case 6: s += "forall fe in " + v + " loop\n  print fe;\n  break;\nend loop;\n"; break;
    case 7: s += "wc = 0;\nwhile " + v + " loop\n  wc = wc + 1;\n  if wc > 2 then break; end if;\nend loop;\n"; break;
    case 8: s += "do " + v + ";\n"; break;
    case 9: s += "function fv" + std::to_string(i) + "(p, q:integer) return " + std::string(r.pick(std::vector<std::string>{"undefined", "integer", "string", "table", "tuple", "decimal"})) + " is\nbegin\n  return " + value(r, 1) + ";\nend;\nprint fv" + std::to_string(i) + "(" + scalar(r) + ", " + scalar(r) + ");\n";
      // the same function declared again later in the same unit (other body, more local variables), called before and after
      if (r.chance(0.5)) { s += "function fv" + std::to_string(i) + "(p, q:integer) return " + std::string(r.pick(std::vector<std::string>{"undefined", "integer", "string", "table"})) + " is\nbegin\n  la = " + value(r, 1) + ";\n  lb = q;\n  lc = tab(2, p);\n  ld = str(lb) + \"x\";\n  for le in 1 to 2 loop\n    lf = le + lb;\n  end loop;\n  return " + value(r, 1) + ";\nend;\nprint fv" + std::to_string(i) + "(" + scalar(r) + ", " + scalar(r) + ");\n"; }
      break;
    case 10: s += "vt = " + v + ";\nva = vt;\n"; break;
    case 11: s += "$k = " + scalar(r) + ";\n$k = " + v + ";\n"; break;
    case 12: s += "raise " + std::string(r.pick(std::vector<std::string>{"OUT_OF_RANGE", "DIVIDE_BY_ZERO", "MYERR"})) + ";\n"; break;
    default: s += "vv:" + std::string(r.pick(std::vector<std::string>{"integer", "string", "table", "tuple", "bytes", "boolean", "decimal", "object", "complex"})) + ";\nprint vv " + v + ";\n"; break;
    }
  }
  if (r.chance(0.3)) s += "return " + value(r, 1) + ";\n";
  return s;
}

// ---- lattice sweep: a deterministic enumeration of (construct x argument lattice), every statement in two forms (operands written in place; operands
// held in variables, which takes the implementation's lvalue paths). Plain enumeration of inputs - counted as sweep_texts, not as simulation.
static std::vector<std::string> lattice(int level) {
  std::vector<std::string> v;
  auto add = [&](const char* const* a, size_t n) { for (size_t i = 0; i < n; ++i) v.push_back(a[i]); };
  if (level == 1) { add(INTS, sizeof(INTS) / sizeof(*INTS)); add(DECS, sizeof(DECS) / sizeof(*DECS)); add(STRS, sizeof(STRS) / sizeof(*STRS)); add(RAWS, sizeof(RAWS) / sizeof(*RAWS)); add(BOOLS, 5); add(NULLS, 3); add(TABS, sizeof(TABS) / sizeof(*TABS)); add(TUPS, 5); add(CPLX, 3); }
  else if (level == 2) v = {"0", "1", "(-1)", "64", "256", "9223372036854775807", "(-9223372036854775807 - 1)", "int()", "0.0", "1.5", "(1.0e308 * 10.0)", "((1.0e308 * 10.0) - (1.0e308 * 10.0))", "num()", "9223372036854775807.0",
                             "\"\"", "\"abc def\"", "str()", "raw()", "raw(\"ab\")", "true", "bool()", "null", "tab(3, 1)", "tab()", "tup(1, \"x\")", "tup()", "ii"};
  else v = {"0", "(-1)", "9223372036854775807", "(-9223372036854775807 - 1)", "int()", "1.5", "(1.0e308 * 10.0)", "\"abc def\"", "\"\"", "null", "tab(3, 1)"};
  return v;
}
struct SweepFamily { uint64_t count; std::function<void(uint64_t, std::string& expr, std::vector<std::string>& args)> make; };
static bool small_size(const std::string& a) { return a == "0" || a == "1" || a == "(-1)" || a == "2" || a == "63" || a == "64" || a == "65" || a == "255" || a == "256" || a == "int()"; }
static const std::vector<SweepFamily>& sweep_families() {
  static std::vector<SweepFamily> F;
  if (!F.empty()) return F;
  static const std::vector<std::string> L1 = lattice(1), L2 = lattice(2), L3 = lattice(3);
  const size_t nb = sizeof(BUILTINS) / sizeof(*BUILTINS);
  // the expression is written over the placeholders $0 $1 $2; args are the operands
  F.push_back({nb * L1.size(), [](uint64_t i, std::string& e, std::vector<std::string>& a) { e = std::string(BUILTINS[i / L1.size()]) + "($0)"; a = {L1[i % L1.size()]}; }});
  F.push_back({nb * L2.size() * L2.size(), [](uint64_t i, std::string& e, std::vector<std::string>& a) { size_t n = L2.size(); e = std::string(BUILTINS[i / (n * n)]) + "($0, $1)"; a = {L2[(i / n) % n], L2[i % n]}; }});
  F.push_back({nb * L3.size() * L3.size() * L3.size(), [](uint64_t i, std::string& e, std::vector<std::string>& a) { size_t n = L3.size(); e = std::string(BUILTINS[i / (n * n * n)]) + "($0, $1, $2)"; a = {L3[(i / (n * n)) % n], L3[(i / n) % n], L3[i % n]}; }});
  F.push_back({(sizeof(BINOPS) / sizeof(*BINOPS)) * L2.size() * L2.size(), [](uint64_t i, std::string& e, std::vector<std::string>& a) { size_t n = L2.size(); e = std::string("($0 ") + BINOPS[i / (n * n)] + " $1)"; a = {L2[(i / n) % n], L2[i % n]}; }});
  F.push_back({5 * L1.size(), [](uint64_t i, std::string& e, std::vector<std::string>& a) { e = std::string("(") + UNOPS[i / L1.size()] + "$0)"; a = {L1[i % L1.size()]}; }});
  F.push_back({3 * L1.size() * L2.size(), [](uint64_t i, std::string& e, std::vector<std::string>& a) { static const char* M[] = {"at", "delete", "concat"}; size_t n1 = L1.size(), n2 = L2.size(); e = std::string("$0.") + M[i / (n1 * n2)] + "($1)"; a = {L1[(i / n2) % n1], L2[i % n2]}; }});
  F.push_back({2 * L2.size() * L3.size() * L2.size(), [](uint64_t i, std::string& e, std::vector<std::string>& a) { static const char* M[] = {"put", "insert"}; size_t n2 = L2.size(), n3 = L3.size(); e = std::string("$0.") + M[i / (n2 * n3 * n2)] + "($1, $2)"; a = {L2[(i / (n3 * n2)) % n2], L3[(i / n2) % n3], L2[i % n2]}; }});
  F.push_back({L1.size(), [](uint64_t i, std::string& e, std::vector<std::string>& a) { e = "$0.count()"; a = {L1[i]}; }});
  F.push_back({6 * L1.size(), [](uint64_t i, std::string& e, std::vector<std::string>& a) { static const char* K[] = {"0", "1", "2", "3", "33", "99999999999999999999"}; e = std::string("$0@") + K[i / L1.size()]; a = {L1[i % L1.size()]}; }});
  F.push_back({4 * L1.size() * L2.size(), [](uint64_t i, std::string& e, std::vector<std::string>& a) { size_t n1 = L1.size(), n2 = L2.size(); e = "$0.set@" + std::to_string(i / (n1 * n2)) + "($1)"; a = {L1[(i / n2) % n1], L2[i % n2]}; }});
  return F;
}
static uint64_t sweep_statements() { uint64_t n = 0; for (auto& f : sweep_families()) n += f.count; return n; }
static const uint64_t SWEEP_PER_RUN = 48;
static uint64_t sweep_runs() { return (sweep_statements() + SWEEP_PER_RUN - 1) / SWEEP_PER_RUN; }
static std::string subst(std::string e, const std::vector<std::string>& a) { for (size_t k = 0; k < a.size(); ++k) { std::string ph = "$" + std::to_string(k); size_t p; while ((p = e.find(ph)) != std::string::npos) e.replace(p, ph.size(), a[k]); } return e; }
// statement #idx of the sweep, in both forms, one statement per line (the units route runs every line as its own unit)
static std::string sweep_statement(uint64_t idx) {
  for (auto& f : sweep_families()) {
    if (idx >= f.count) { idx -= f.count; continue; }
    std::string e; std::vector<std::string> a; f.make(idx, e, a);
    // an allocation request stays inside the property's domain
    if ((e.compare(0, 4, "tab(") == 0 || e.compare(0, 4, "raw(") == 0) && !a.empty() && !small_size(a[0])) { bool numeric = a[0][0] != '"' && a[0] != "null" && a[0].compare(0, 3, "tab") != 0 && a[0].compare(0, 3, "tup") != 0 && a[0].compare(0, 3, "raw") != 0 && a[0] != "true" && a[0] != "bool()" && a[0] != "ii" && a[0] != "str()"; if (numeric) return ""; }
    if (e.find(" * ") != std::string::npos || e.find(" ** ") != std::string::npos || e.find(" power ") != std::string::npos || e.find(" << ") != std::string::npos) { /* string / bytes repetition is not part of the language; nothing to bound */ }
    std::string s = "print " + subst(e, a) + ";\n";
    std::vector<std::string> names; for (size_t k = 0; k < a.size(); ++k) { s += "s" + std::to_string(k) + " = " + a[k] + ";\n"; names.push_back("s" + std::to_string(k)); }
    s += "print " + subst(e, names) + ";\n";
    return s;
  }
  return "";
}
static std::string sweep_program(uint64_t run) { std::string s; for (uint64_t i = run * SWEEP_PER_RUN; i < (run + 1) * SWEEP_PER_RUN && i < sweep_statements(); ++i) s += sweep_statement(i); return s; }

struct C01 : Profile {
  const char* id() const override { return "C01"; }
  long budget(const std::string& tier) const override { return tier == "thorough" ? 2000000 : 40000; }
  std::string rule() const override {
    return "plan = source text + delivery route + fault. Texts: (a) vocabulary programs - every statement kind, 55 built-ins, 25 binary and 5 unary operators, the type methods and "
           "tuple accessors applied to arguments from a lattice {0, +-1, 2^k, 2^k+-1, INT64_MIN/MAX, typed and untyped nulls, +-0.0, inf, nan, subnormal, empty / numeric-looking / "
           "escaped strings, empty and null bytes, empty / nested / tuple tables, null and structured tuples, complex} (plain seeded generation, counted as vocab_texts); (b) "
           "generated structured programs; (c) the first runs of every batch are a deterministic sweep: every built-in with 1, 2 and 3 arguments, every binary and unary operator, every method and accessor over "
           "argument lattices of 73 / 27 / 11 values, each statement once with the operands written in place and once with the operands held in variables (plain enumeration, counted as sweep_texts). Faults: the stream is damaged at a token (byte flip, deletion, duplication, replacement, swap, stray structural words, EOF inside a "
           "string or comment, splice with the tail of another program) and delivered in seeded fragments (SimReader), whole (C API) or as a file to the bloc command. Every "
           "statement of a vocabulary program also runs as its own unit so that one error does not hide the next. Oracle (monitor M): the run ends as ok, ParseError or "
           "RuntimeError; no signal, no AddressSanitizer / UndefinedBehaviorSanitizer report, no other exception type at the library boundary (std::bad_alloc = out of the "
           "property's domain). Non-trivial = the text was damaged or fragmented; distinct = distinct event-trace hash.";
  }
  json components() const override { return json{{"real", {"tokenizer, parser, every statement / operator / builtin / member implementation reached", "bloc_parse_executable / bloc_execute", "apps main() in file mode"}}, {"stub", json::array()}}; }
  std::vector<std::string> assumptions() const override { return {"allocation requests of tab/raw are kept <= 10^4 elements and nesting depth <= 40 (the property's domain); std::bad_alloc and step-budget stops are not violations", "random, getenv, getsys, input, read, readln are not generated (process-global inputs)", "the vocabulary sweep itself is seeded input generation, not simulation; the delivery and corruption faults are the simulated part"}; }
  json sample(const json& plan) const override { json s = plan; if (s.contains("text") && s["text"].get<std::string>().size() > 700) s["text"] = s["text"].get<std::string>().substr(0, 700) + "..."; if (s.contains("reader") && s["reader"].contains("chunks") && s["reader"]["chunks"].size() > 12) s["reader"]["chunks"] = "(" + std::to_string(s["reader"]["chunks"].size()) + " sizes)"; return s; }

  json generate(uint64_t vseed, uint64_t runno, const std::string&) override {
    Rng r(runseed(vseed, runno)); json plan; plan["property"] = "C01";
    if (runno < sweep_runs()) { plan["sweep"] = runno; plan["vocab"] = false; plan["text"] = enc(sweep_program(runno)); plan["route"] = "units"; plan["reader"] = json{{"chunks", std::vector<int>()}, {"tail", 0}, {"line", false}}; return plan; }
    std::string text; bool vocab = r.chance(0.7);
    if (vocab) text = vocabulary_program(r);
    else { GenKnobs k; k.fault_points = false; k.objects = false; k.top_statements = (int)r.range(2, 10); k.functions = (int)r.range(0, 2); k.natural_error_rate = 0.05; Rng gr(subseed(runseed(vseed, runno), "gen")); text = print_program(gen_program(gr, k).ast); }
    plan["vocab"] = vocab;
    if (r.chance(0.6)) { Rng dr(subseed(runseed(vseed, runno), "damage")); std::string other = vocabulary_program(dr), desc; size_t nt = reflex(text).tokens.size(); int nd = (int)dr.range(1, 3);
      for (int i = 0; i < nd; ++i) text = damage_text(dr, text, (int)dr.weighted({2, 3, 2, 4, 2, 3, 1, 1, 4, 3}), dr.below(nt ? nt : 1), desc, other); plan["damage"] = desc; }
    plan["text"] = enc(text);
    static const char* ROUTES[] = {"library", "library", "library", "capi", "capi", "units", "units", "cli"};
    plan["route"] = ROUTES[r.below(8)];
    if (!plan.contains("damage") && (text.find("import nosuchmodule;") != std::string::npos || text.find("/nonexistent/file.bloc") != std::string::npos) && r.chance(0.6)) plan["route"] = "capi";   // position-less errors matter where a position is asked for
    std::vector<int> ch; if (r.chance(0.6)) { int n = (int)r.range(1, 40); for (int i = 0; i < n; ++i) ch.push_back((int)r.range(1, r.chance(0.5) ? 6 : 300)); }
    plan["reader"] = json{{"chunks", ch}, {"tail", r.chance(0.5) ? 0 : (int)r.range(1, 100)}, {"line", r.chance(0.5)}};
    return plan;
  }

  ExecResult execute(const json& plan) override {
    ExecResult res; EventLog ev; VfHost::get().reset();
    auto fail = [&](const std::string& cls, const std::string& msg) { if (res.vclass.empty()) { res.vclass = cls; res.message = msg; } };
    std::string text = dec(plan.value("text", "")), route = plan.value("route", "library"); json rd = plan.value("reader", json::object());
    if (text.find('\0') != std::string::npos) { for (auto& c : text) if (c == '\0') c = ' '; }
    // the property's domain bounds the requested allocation sizes: a text that asks tab / raw for more than 10^5 elements (token damage can write such a text) is not a trial
    { static const std::regex big("(tab|raw)[ \t\r\n]*\\([ \t\r\n(-]*[0-9]{6,}", std::regex::icase); if (std::regex_search(text, big)) { ++res.probes["out_of_domain_allocation_request"]; res.trace_hash = ev.hash(); return res; } }
    ++res.probes["route_" + route]; if (plan.value("vocab", false)) ++res.probes["vocab_texts"]; if (plan.contains("sweep")) ++res.probes["sweep_texts"]; if (plan.contains("damage")) { ++res.faults["stream_corrupt"]; res.faulty = true; res.nontrivial = true; }
    auto classify = [&](const Outcome& o, const char* where) {
      ev.add(std::string(where) + ":" + o.str());
      if (o.kind == Outcome::FOREIGN) { if (o.text.find("bad_alloc") != std::string::npos || o.text.find("length_error") != std::string::npos) ++res.probes["out_of_domain_allocation"]; else fail("C01/exception-crossed-the-library-boundary", std::string(where) + ": " + o.text); }
      ++res.probes[o.kind == Outcome::OK ? "ended_ok" : o.kind == Outcome::PARSE_ERROR ? "ended_parse_error" : o.kind == Outcome::RUNTIME_ERROR ? "ended_runtime_error" : "ended_other"];
    };
    if (route == "library" || route == "units") {
      std::vector<std::string> units;
      if (route == "units") { size_t b = 0; std::string cur; while (b < text.size()) { size_t e = text.find('\n', b); if (e == std::string::npos) e = text.size() - 1; std::string line = text.substr(b, e - b + 1); cur += line; if (!line.empty() && line[0] != ' ' && line.find(';') != std::string::npos && line.compare(0, 5, "begin") != 0 && line.compare(0, 2, "if") != 0 && line.compare(0, 3, "for") != 0 && line.compare(0, 5, "while") != 0 && line.compare(0, 8, "function") != 0 && line.compare(0, 9, "exception") != 0 && line.compare(0, 4, "when") != 0 && line.compare(0, 4, "else") != 0) { units.push_back(cur); cur.clear(); } b = e + 1; } if (!cur.empty()) units.push_back(cur); }
      else units.push_back(text);
      Capture cap; { bloc::Context ctx(cap.fd(), cap.fd()); ctx.trusted(true); std::vector<bloc::Executable*> exes;
        for (auto& u : units) {
          SimReader sr(u, route == "library" ? rd.value("chunks", std::vector<int>()) : std::vector<int>(), rd.value("tail", 0), rd.value("line", false));
          if (route == "library" && !sr.offsets.empty()) {}
          bloc::Executable* exe = nullptr; Outcome o = parse_text(ctx, sr, exe);
          if (route == "library" && sr.calls > 2) { res.nontrivial = true; res.faults["stream_fragment"] += sr.calls; }
          if (!o.ok()) { classify(o, "parse"); continue; }
          exes.push_back(exe); ctx.returnCondition(false);
          { ++res.probes["compiled_and_run_" + route]; StepGuard g(20000); Outcome ro = run_exe(exe); if (g.exceeded) ++res.probes["step_budget_stop"]; classify(ro, "run"); res.steps += g.steps; }
          ctx.returnCondition(false); delete ctx.dropReturned();
        }
        for (auto e : exes) delete e; }
    } else if (route == "capi") {
      Capture cap; bloc_context* c = bloc_create_context(cap.fd(), cap.fd()); bloc_parsing_position pos = {0, 0};
      try {
        bloc_executable* x = bloc_parse_executable(c, text.c_str(), &pos);
        if (!x) { ev.add("capi:parse_error"); if (!bloc_strerror() || !*bloc_strerror()) fail("C01/capi-failure-without-error-text", "bloc_parse_executable"); ++res.probes["ended_parse_error"]; }
        else { ++res.probes["compiled_and_run_capi"]; StepGuard g(20000); bool ok = bloc_execute(x) == bloc_true; ev.add(ok ? "capi:ok" : "capi:runtime_error"); ++res.probes[ok ? "ended_ok" : "ended_runtime_error"]; if (!ok && (!bloc_strerror() || !*bloc_strerror())) fail("C01/capi-failure-without-error-text", "bloc_execute"); bloc_value* v = bloc_drop_returned(c); if (v) bloc_free_value(v); bloc_free_executable(x); }
      } catch (std::bad_alloc&) { ++res.probes["out_of_domain_allocation"]; }
        catch (std::length_error&) { ++res.probes["out_of_domain_allocation"]; }
        catch (std::exception& e) { fail("C01/exception-crossed-the-c-api", std::string(typeid(e).name()) + ": " + e.what()); }
        catch (...) { fail("C01/exception-crossed-the-c-api", "unknown"); }
      bloc_free_context(c);
    } else {
      mkdir((bindir() + "/scratch").c_str(), 0777);
      std::string pf = bindir() + "/scratch/c01-" + std::to_string(fnv1a(plan.dump(-1, ' ', false, json::error_handler_t::replace)) % 100000000ULL) + ".b";
      { std::ofstream f(pf, std::ios::binary); f << text; }
      StdinPlan sp; CliResult cr = run_cli({"bloc", pf, "arg"}, nullptr, sp, 20000);
      unlink(pf.c_str());
      ev.add("cli:" + std::to_string(cr.rc));
      if (!cr.foreign.empty()) { if (cr.foreign.find("bad_alloc") != std::string::npos || cr.foreign.find("length_error") != std::string::npos) ++res.probes["out_of_domain_allocation"]; else fail("C01/exception-escaped-main", cr.foreign); }
      ++res.probes[cr.rc == 0 ? "ended_ok" : "ended_error_status"];
    }
    bloc_deinit_plugins();
    res.trace_hash = ev.hash();
    return res;
  }
  bool fork_per_run() const override { return false; }

  std::vector<json> shrink(const json& plan) override {
    std::vector<json> v; std::string text = dec(plan.value("text", ""));
    { json p = plan; p["reader"] = json{{"chunks", json::array()}, {"tail", 0}, {"line", false}}; if (p["reader"] != plan.value("reader", json::object())) v.push_back(p); }
    if (plan.value("route", "") == "cli" || plan.value("route", "") == "capi") { json p = plan; p["route"] = "library"; v.push_back(p); }
    std::vector<std::string> lines; size_t b = 0; while (b < text.size()) { size_t e = text.find('\n', b); if (e == std::string::npos) e = text.size() - 1; lines.push_back(text.substr(b, e - b + 1)); b = e + 1; }
    for (size_t piece = lines.size() / 2; piece >= 1; piece /= 2) { for (size_t s = 0; s + piece <= lines.size() && v.size() < 200; s += piece) { std::string t; for (size_t i = 0; i < lines.size(); ++i) if (i < s || i >= s + piece) t += lines[i]; json p = plan; p["text"] = enc(t); v.push_back(p); } if (piece == 1) break; }
    return v;
  }
};

static ProfileRegistrar reg(new C01());

} // namespace
