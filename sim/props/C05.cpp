// C05 - evaluating an expression changes nothing but its target (value semantics under recycled temporaries).
#include "props/rbase.h"
#include "props/astutil.h"

using namespace sim;
using namespace sim::ast;

namespace {

struct C05 : RBase {
  const char* id() const override { return "C05"; }
  long budget(const std::string& tier) const override { return tier == "thorough" ? 300000 : 6000; }
  std::string rule() const override {
    return "plan = generated program plus 6..20 alias scenarios over every modelled value type: b = a; t.put(i, a); f(a); tup(a, ..); tab(n, a); returning a; each followed by an in-place "
           "mutation of one alias (put, insert, delete, concat, set@, string concat) and a print of all aliases; the same side-effect-free expression node evaluated repeatedly in loops; "
           "literal constants used as receivers of in-place methods inside loops; fault points inside expressions after some operands were evaluated (the temporary pool is kept after an "
           "error and recycled at the next statement); bloc_break. Oracle: reference interpreter with value semantics (printed aliases after every mutation, final deep variable store), "
           "the text unparsed from the executable identical before and after the run (constants unchanged), residue invariants. Non-trivial = an alias was mutated or a fault fired; "
           "distinct = distinct event-trace hash.";
  }
  GenKnobs knobs(Rng& r) const override {
    GenKnobs k; k.exceptions = true; k.fault_points = true; k.fault_point_rate = 0.2; k.natural_errors = true; k.natural_error_rate = 0.02;
    k.max_depth = 2; k.top_statements = (int)r.range(2, 6); k.functions = (int)r.range(0, 2); k.objects = false; k.returns = false; k.loop_max_iter = 3;
    return k;
  }
  bool with_probe() const override { return true; }
  // units run after the program in the same context: a variable returned at top level keeps its value for the next unit
  std::vector<std::vector<json>> extra_units(Rng& r, const json&, GenProgram&) const override {
    std::vector<std::vector<json>> U; if (!r.chance(0.5)) return U;
    auto look = [&]() { return std::vector<json>{print({slit("after return: sa="), var("sa", "str"), slit(" ta#"), mth("count", var("ta", "tabint"), {}), slit(" ua="), var("ua", "tup"), slit(" ia="), var("ia")})}; };
    int n = (int)r.range(1, 3);
    for (int i = 0; i < n; ++i) { switch (r.below(4)) { case 0: U.push_back({ret(var("sa", "str"))}); break; case 1: U.push_back({ret(var("ta", "tabint"))}); break; case 2: U.push_back({ret(var("ua", "tup"))}); break; default: U.push_back({ret(var("ia"))}); break; } U.push_back(look()); }
    return U;
  }
  void extra_statements(Rng& r, json& a, GenProgram& p) const override {
    json& F = a["funcs"]; json& B = a["body"];
    F.push_back(func("mutt", {{"t", "tabint"}}, "int", {doit(mth("put", var("t", "tabint"), {ilit(0), ilit(77)}, "tabint")), doit(mth("concat", var("t", "tabint"), {ilit(78)}, "tabint")), ret(mth("at", var("t", "tabint"), {ilit(0)}))}));
    F.push_back(func("muts", {{"s", "str"}}, "str", {doit(mth("concat", var("s", "str"), {slit("+callee")}, "str")), ret(var("s", "str"))}));
    F.push_back(func("mutu", {{"u", "tup"}}, "int", {doit(setitem(var("u", "tup"), 1, ilit(99))), ret(item(var("u", "tup"), 1))}));
    F.push_back(func("idt", {{"t", "tabint"}}, "tabint", {ret(var("t", "tabint"))}));
    F.push_back(func("ids", {{"s", "str"}}, "str", {ret(var("s", "str"))}));
    // a local that is only assigned on one path, read twice before any assignment, in a function called repeatedly (recycled context)
    { json isn = json{{"k", "bi"}, {"f", "isnull"}, {"args", json::array({var("lc", "str")})}, {"t", "bool"}};
      F.push_back(func("unset", {{"k", "int"}}, "bool", {iff(bin("==", var("k"), ilit(1), "bool"), {let("lc", slit("set"))}), print({slit("unset:"), isn, isn}), iff(isn, {print({slit("still unset")})}), ret(isn)})); }
    F.push_back(func("cat2", {{"a", "str"}, {"b", "str"}}, "str", {let("loc2", bin("+", var("a", "str"), slit("|"), "str")), ret(bin("+", var("loc2", "str"), var("b", "str"), "str"))}));
    B.push_back(let("ta", tab(ilit(3), ilit(1)))); B.push_back(let("sa", slit("abc"))); B.push_back(let("ua", tup({ilit(1), slit("x")}))); B.push_back(let("ia", ilit(5)));
    B.push_back(let("tb", var("ta", "tabint"))); B.push_back(let("sb", var("sa", "str"))); B.push_back(let("ub", var("ua", "tup"))); B.push_back(let("ts0", tab(ilit(2), slit("e"), "tabstr")));
    auto show = [&]() { B.push_back(print({slit("ta="), mth("at", var("ta", "tabint"), {ilit(0)}), mth("count", var("ta", "tabint"), {}), slit(" tb="), mth("at", var("tb", "tabint"), {ilit(0)}), mth("count", var("tb", "tabint"), {}), slit(" sa="), var("sa", "str"), slit(" sb="), var("sb", "str"), slit(" ua="), var("ua", "tup"), slit(" ub="), var("ub", "tup"), slit(" ia="), var("ia")})); };
    int pid = p.fault_points;
    int n = (int)r.range(6, 20);
    for (int i = 0; i < n; ++i) {
      switch (r.below(35)) {
      case 34: // an element written through the iterator and read again (copied, printed) in the same iteration
        B.push_back(let("tb", var("ta", "tabint"))); B.push_back(forall("zr", var("tb", "tabint"), {let("zr", r.chance(0.5) ? bin("+", var("ia"), ilit(1)) : var("ia")), let("iw", var("zr")), print({slit("zr="), var("zr"), slit(" iw="), var("iw"), slit(" "), json{{"k", "bi"}, {"f", "isnull"}, {"args", json::array({var("zr")})}, {"t", "bool"}}})}));
        B.push_back(forall("zt", var("ts0", "tabstr"), {let("zt", r.chance(0.5) ? bin("+", var("sa", "str"), slit("."), "str") : slit("k")), let("sw", var("zt", "str")), print({slit("zt="), var("zt", "str"), var("sw", "str")})})); B.push_back(print({slit("ts0="), mth("at", var("ts0", "tabstr"), {ilit(0)}, "str"), mth("at", var("ts0", "tabstr"), {ilit(1)}, "str")})); break;
      case 32: // the same function called while its own arguments are evaluated, repeatedly
        B.push_back(forl("r9", ilit(1), ilit(3), {print({call("cat2", {var("sa", "str"), call("cat2", {slit("c"), slit("d")}, "str")}, "str"), slit(" "), call("cat2", {call("cat2", {slit("e"), var("sb", "str")}, "str"), slit("f")}, "str")})})); break;
      case 33: B.push_back(print({slit("sub:"), json{{"k", "bi"}, {"f", "substr"}, {"args", json::array({var("sa", "str"), ilit(r.pick(std::vector<long>{3, 9, 50}))})}, {"t", "str"}}, slit("|"), json{{"k", "bi"}, {"f", "substr"}, {"args", json::array({slit("world"), ilit(r.pick(std::vector<long>{2, 5, 9})), ilit(r.range(0, 2))})}, {"t", "str"}}})); break;
      case 27: // a forall iterator read repeatedly after its loop has ended (it is a null of the element type then)
        B.push_back(let("tb", var("ta", "tabint"))); B.push_back(forall("z7", var("tb", "tabint"), {let("z7", bin("+", var("z7"), ilit(1)))}));
        B.push_back(print({slit("z7:"), json{{"k", "bi"}, {"f", "isnull"}, {"args", json::array({var("z7")})}, {"t", "bool"}}, json{{"k", "bi"}, {"f", "isnull"}, {"args", json::array({var("z7")})}, {"t", "bool"}}, json{{"k", "bi"}, {"f", "isnull"}, {"args", json::array({bin("+", var("z7"), ilit(1))})}, {"t", "bool"}}})); break;
      case 28: // assignment through a forall iterator from a variable, a constant and an element: the source keeps its value
        B.push_back(let("tb", var("ta", "tabint"))); B.push_back(let("ic", ilit(r.range(30, 39))));
        B.push_back(forl("r7", ilit(1), ilit(2), {forall("z8", var("tb", "tabint"), {let("z8", r.chance(0.4) ? var("ic") : r.chance(0.5) ? ilit(7) : mth("at", var("ta", "tabint"), {ilit(0)}))}), print({slit("ic="), var("ic"), slit(" tb0="), mth("at", var("tb", "tabint"), {ilit(0)})})})); break;
      case 29: { // a string constant of the program text as the receiver of an in-place method, evaluated repeatedly
        json recv = slit("lit"); json st;
        if (r.chance(0.3)) { recv = json{{"k", "null"}, {"t", ""}}; st = print({mth("concat", recv, {r.chance(0.5) ? slit("!") : ilit(33)}, "str")}); B.push_back(forl("r8", ilit(1), ilit(3), {st})); break; }   // the null constant as receiver
        switch (r.below(4)) { case 0: st = print({mth("concat", recv, {r.chance(0.5) ? slit("!") : ilit(33)}, "str")}); break; case 1: st = print({mth("insert", recv, {ilit(0), r.chance(0.5) ? ilit(65) : slit("ab")}, "str")}); break;
                              case 2: st = print({mth("put", recv, {ilit(0), ilit(66)}, "str")}); break; default: st = print({mth("delete", recv, {ilit(0)}, "str")}); break; }
        B.push_back(forl("r8", ilit(1), ilit(3), {st})); break; }
      case 30: B.push_back(let("sb", var("sa", "str"))); B.push_back(forall("z9", var("ts0", "tabstr"), {let("z9", r.chance(0.5) ? var("sa", "str") : slit("const"))})); B.push_back(print({slit("ts0="), mth("at", var("ts0", "tabstr"), {ilit(0)}, "str")})); break;
      case 31: B.push_back(doit(mth("insert", var("sa", "str"), {ilit(0), ilit(r.range(65, 90))}, "str"))); break;
      case 22: { // the null constants of the program text, read repeatedly by built-ins that recycle the storage of their operand
        json nl{{"k", "null"}, {"t", ""}}; json ni{{"k", "null"}, {"t", "int"}}; json ns{{"k", "null"}, {"t", "str"}};
        auto isn = [](json e) { return json{{"k", "bi"}, {"f", "isnull"}, {"args", json::array({e})}, {"t", "bool"}}; };
        B.push_back(forl("r3", ilit(1), ilit(3), {print({isn(nl), isn(ni), isn(ns), isn(var("ia")), isn(var("sa", "str"))})})); break; }
      case 23: B.push_back(print({slit("unset:"), call("unset", {ilit(r.range(0, 1))}, "bool")})); break;
      case 24: case 25: { // an in-place method applied directly to the result of a built-in that may hand its operand through
        static const char* PASS[] = {"str", "upper", "lower", "trim", "ltrim", "rtrim"};
        json src = r.chance(0.7) ? var("sa", "str") : slit("Lit");
        json recv; switch (r.below(4)) {
          case 0: recv = json{{"k", "bi"}, {"f", PASS[r.below(6)]}, {"args", json::array({src})}, {"t", "str"}}; break;
          case 1: recv = json{{"k", "bi"}, {"f", "substr"}, {"args", r.chance(0.5) ? json::array({src, ilit(r.pick(std::vector<long>{0, 1, 2, 9, 50}))}) : json::array({src, ilit(r.range(0, 3)), ilit(r.pick(std::vector<long>{0, 1, 2, 50}))})}, {"t", "str"}}; break;   // also empty selections
          case 2: recv = json{{"k", "bi"}, {"f", "replace"}, {"args", json::array({src, slit(r.chance(0.5) ? "" : "zz"), slit("y")})}, {"t", "str"}}; break;
          default: recv = json{{"k", "bi"}, {"f", "str"}, {"args", json::array({src})}, {"t", "str"}}; break; }
        if (r.chance(0.3)) { // a null or out-of-range second operand makes the built-in hand its first operand through; the result is never printed (only the operand must stay intact)
          json ni{{"k", "null"}, {"t", "int"}}; json ns{{"k", "null"}, {"t", "str"}};
          switch (r.below(8)) {
            case 5: recv = bin("+", src, ns, "str"); break;
            case 6: recv = bin("+", ns, src, "str"); break;
            case 7: recv = bin("+", slit(""), src, "str"); break;
            case 0: recv = json{{"k", "bi"}, {"f", "substr"}, {"args", json::array({src, ni})}, {"t", "str"}}; break;
            case 1: recv = json{{"k", "bi"}, {"f", "lsubstr"}, {"args", json::array({src, ni})}, {"t", "str"}}; break;
            case 2: recv = json{{"k", "bi"}, {"f", "rsubstr"}, {"args", json::array({src, ni})}, {"t", "str"}}; break;
            case 3: recv = json{{"k", "bi"}, {"f", "replace"}, {"args", json::array({src, ns, slit("y")})}, {"t", "str"}}; break;
            default: recv = json{{"k", "bi"}, {"f", "substr"}, {"args", json::array({src, ilit(0), ni})}, {"t", "str"}}; break; }
          json st = doit(mth("concat", recv, {slit("!")}, "str"));
          if (src["k"] == "str") B.push_back(forl("r4", ilit(1), ilit(3), {st})); else B.push_back(st);
          break; }
        json st = r.chance(0.5) ? print({slit("tmp:"), mth("concat", recv, {slit("!")}, "str")}) : doit(mth("concat", recv, {ilit(r.range(65, 90))}, "str"));
        if (src["k"] == "str") B.push_back(forl("r4", ilit(1), ilit(3), {st})); else B.push_back(st);
        break; }
      case 26: B.push_back(forl("r5", ilit(1), ilit(2), {print({slit("unset:"), call("unset", {ilit(0)}, "bool")})})); break;
      case 0: B.push_back(let("tb", var("ta", "tabint"))); B.push_back(doit(mth("put", var("tb", "tabint"), {ilit(0), ilit(r.range(2, 9))}, "tabint"))); break;
      case 1: B.push_back(let("tb", var("ta", "tabint"))); B.push_back(doit(mth("concat", var("ta", "tabint"), {ilit(r.range(2, 9))}, "tabint"))); break;
      case 2: B.push_back(let("tb", var("ta", "tabint"))); B.push_back(doit(mth("insert", var("tb", "tabint"), {ilit(0), ilit(r.range(2, 9))}, "tabint"))); break;
      case 3: B.push_back(let("tb", var("ta", "tabint"))); B.push_back(iff(bin(">", mth("count", var("ta", "tabint"), {}), ilit(1), "bool"), {doit(mth("delete", var("ta", "tabint"), {ilit(0)}, "tabint"))})); break;
      case 4: B.push_back(let("sb", var("sa", "str"))); B.push_back(doit(mth("concat", var("sb", "str"), {slit("!")}, "str"))); break;
      case 5: B.push_back(let("sb", var("sa", "str"))); B.push_back(doit(mth("concat", var("sa", "str"), {ilit(r.range(65, 90))}, "str"))); break;
      case 6: B.push_back(let("ub", var("ua", "tup"))); B.push_back(doit(setitem(var("ub", "tup"), 1, ilit(r.range(2, 9))))); break;
      case 7: B.push_back(let("ub", var("ua", "tup"))); B.push_back(doit(setitem(var("ua", "tup"), 2, slit("changed")))); break;
      case 8: B.push_back(print({slit("mutt:"), call("mutt", {var("ta", "tabint")})})); break;           // arguments are received by copy
      case 9: B.push_back(print({slit("muts:"), call("muts", {var("sa", "str")}, "str")})); break;
      case 10: B.push_back(print({slit("mutu:"), call("mutu", {var("ua", "tup")})})); break;
      case 11: B.push_back(let("tb", call("idt", {var("ta", "tabint")}, "tabint"))); B.push_back(doit(mth("put", var("tb", "tabint"), {ilit(0), ilit(55)}, "tabint"))); break;   // a returned value is a copy
      case 12: B.push_back(let("sb", call("ids", {var("sa", "str")}, "str"))); B.push_back(doit(mth("concat", var("sb", "str"), {slit("?")}, "str"))); break;
      case 13: B.push_back(let("uc", tup({var("ia"), var("sa", "str")}))); B.push_back(let("ia", bin("+", var("ia"), ilit(1)))); B.push_back(doit(mth("concat", var("sa", "str"), {slit("~")}, "str"))); B.push_back(print({slit("uc="), var("uc", "tup")})); break;
      case 14: B.push_back(let("ts", tab(ilit(2), var("sa", "str"), "tabstr"))); B.push_back(doit(mth("concat", var("sa", "str"), {slit("#")}, "str"))); B.push_back(print({slit("ts="), mth("at", var("ts", "tabstr"), {ilit(0)}, "str"), mth("at", var("ts", "tabstr"), {ilit(1)}, "str")})); break;
      case 15: B.push_back(doit(mth("put", var("ta", "tabint"), {ilit(0), var("ia")}, "tabint"))); B.push_back(let("ia", bin("*", var("ia"), ilit(2)))); break;
      case 16: // the same side-effect-free expression node evaluated repeatedly
        B.push_back(forl("r1", ilit(1), ilit(3), {print({bin("+", var("ia"), ilit(1)), slit(" "), bin("+", var("sa", "str"), slit("z"), "str"), slit(" "), mth("count", var("ta", "tabint"), {}), slit(" "), bin("*", mth("at", var("ta", "tabint"), {ilit(0)}), ilit(2)), slit(" "), item(var("ua", "tup"), 1)})})); break;
      case 17: // a literal constant as the source of an in-place mutated value, inside a loop
        B.push_back(forl("r2", ilit(1), ilit(3), {let("x5", slit("lit")), doit(mth("concat", var("x5", "str"), {slit("!")}, "str")), let("x6", ilit(5)), let("y6", var("x6")), let("y6", bin("+", var("y6"), ilit(1))), let("t5", tab(ilit(2), ilit(4))), doit(mth("put", var("t5", "tabint"), {ilit(0), ilit(9)}, "tabint")), print({var("x5", "str"), var("x6"), var("y6"), mth("at", var("t5", "tabint"), {ilit(0)}), mth("at", var("t5", "tabint"), {ilit(1)})})})); break;
      case 18: // an error after some operands were evaluated, then the same operands again
        ++pid; B.push_back(begin({print({bin("+", var("sa", "str"), pt(pid, "ps", var("v", "obj"), slit("q"), "str"), "str")})}, "OTHERS", {print({slit("caught"), err(1)})})); break;
      case 19: ++pid; B.push_back(begin({let("ia", bin("+", bin("*", var("ia"), ilit(1)), pt(pid, "pt", var("v", "obj"), ilit(1), "int")))}, "OTHERS", {print({slit("caught"), err(1)})})); break;
      case 20: ++pid; B.push_back(begin({doit(mth("put", var("ta", "tabint"), {ilit(0), pt(pid, "pt", var("v", "obj"), ilit(8), "int")}, "tabint"))}, "OTHERS", {print({slit("caught"), err(1)})})); break;
      default: B.push_back(let("tb", var("ta", "tabint"))); B.push_back(forall("z5", var("tb", "tabint"), {let("z5", bin("+", var("z5"), ilit(10)))})); break;   // writes through the iterator land in tb only
      }
      show();
    }
    p.fault_points = pid;
  }
};

static ProfileRegistrar reg(new C05());

} // namespace
