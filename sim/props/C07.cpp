// C07 - errors reach the nearest matching handler and leave no residue once handled.
#include "props/rbase.h"
#include "props/astutil.h"
#include "seams/clirun.h"
#include <regex>
#include <functional>

using namespace sim;

namespace {

struct C07 : RBase {
  const char* id() const override { return "C07"; }
  const char* level() const override { return "fault_enumeration"; }
  long budget(const std::string& tier) const override { return tier == "thorough" ? 100000 : 5000; }
  std::string rule() const override {
    return "plan = generated program skeleton (nestings up to depth 3 of begin/exception with handlers OUT_OF_RANGE, DIVIDE_BY_ZERO, user names, OTHERS in every order, for, forall, "
           "while, if, function calls from inside loops inside blocks) with vf fault points at expression positions (loop headers, conditions, call arguments, handler bodies, "
           "return expressions) and natural errors (1/0, raise, t.at(99), step 0), followed by a probe unit in the same context. The runs of a group share the skeleton and "
           "enumerate which fault point fires (each point x 4 error kinds x visit 1..2), then random pairs, then bloc_break before statement #k. Oracle: reference interpreter "
           "(handler selection, printed trace, error number / user name reported to the host per unit, final variable store) + residue invariants (loop-control depth, "
           "exec-level depth, symbol constraint flags, pending break/continue) after every unit + bounded liveness (statement steps <= 200 + 30 x model steps). "
           "Non-trivial = a fault fired, a unit ended by an error, or a cancel landed; distinct = distinct event-trace hash.";
  }
  GenKnobs knobs(Rng& r) const override {
    GenKnobs k; k.exceptions = true; k.fault_points = true; k.fault_point_rate = 0.25; k.natural_errors = true; k.natural_error_rate = r.chance(0.5) ? 0.03 : 0.0;
    k.max_depth = 3; k.top_statements = (int)r.range(3, 8); k.functions = (int)r.range(0, 2); k.objects = false; k.returns = r.chance(0.2); k.loop_max_iter = 3;
    return k;
  }
  // scenarios of the property's own clauses, in front of the generated skeleton
  void extra_statements(Rng& r, json& a, GenProgram&) const override {
    using namespace sim::ast;
    json& F = a["funcs"]; json& B = a["body"];
    // a function that raises and handles an error of its own, and one whose stray break / continue must do nothing
    F.push_back(func("inner7", {{"n", "int"}}, "int", {begin({let("w7", bin("/", ilit(10), var("n")))}, "DIVIDE_BY_ZERO", {let("w7", ilit(-1))}), ret(var("w7"))}));
    F.push_back(func("stray7", {{"n", "int"}}, "int", {iff(bin(">", var("n"), ilit(1), "bool"), {json{{"k", "break"}}}), iff(bin(">", var("n"), ilit(2), "bool"), {json{{"k", "continue"}}}), ret(bin("+", var("n"), ilit(100)))}));
    int n = (int)r.range(1, 4);
    for (int i = 0; i < n; ++i) switch (r.below(5)) {
      case 0: // the handler still describes its own error after calling a function that handled one of its own
        B.push_back(begin({raise("E7")}, "E7", {print({slit("h:"), err(1), slit(" "), call("inner7", {ilit(0)}), slit(" "), err(1)})})); break;
      case 1: B.push_back(begin({let("z7", bin("/", ilit(1), ilit(0)))}, "OTHERS", {print({slit("h:"), err(1), call("inner7", {ilit(r.range(0, 2))}), err(1)}), iff(bin("==", err(1), slit("DIVIDE_BY_ZERO"), "bool"), {print({slit("still dbz")})}, {print({slit("lost")})})})); break;
      case 2: { // the first matching clause wins, wherever OTHERS stands
        json b; b["k"] = "begin"; b["body"] = arr({raise(r.chance(0.5) ? "FOO7" : "BAR7")});
        json h1; h1["n"] = "OTHERS"; h1["body"] = arr({print({slit("others "), err(1)})}); json h2; h2["n"] = "FOO7"; h2["body"] = arr({print({slit("foo "), err(1)})}); json h3; h3["n"] = "BAR7"; h3["body"] = arr({print({slit("bar "), err(1)})});
        switch (r.below(3)) { case 0: b["handlers"] = arr({h1, h2, h3}); break; case 1: b["handlers"] = arr({h2, h1, h3}); break; default: b["handlers"] = arr({h3, h2, h1}); break; }
        B.push_back(b); break; }
      case 3: B.push_back(forl("q7", ilit(1), ilit(3), {print({slit("stray:"), call("stray7", {var("q7")})})})); break;
      default: B.push_back(forl("q8", ilit(1), ilit(2), {begin({print({call("stray7", {ilit(3)})}), raise("E8")}, "E8", {print({slit("h8 "), err(1), call("stray7", {ilit(2)})})})})); break;
    }
  }
};

// The same statements driven through the interactive loop of the bloc command (apps/cli_parser.cpp has its own
// statement driver): after an error has been reported the session must accept and correctly run further code.
struct C07cli {
  static void check(const json& plan, ExecResult& res) {
    auto fail = [&](const std::string& cls, const std::string& msg) { if (res.vclass.empty()) { res.vclass = cls; res.message = msg; } };
    std::vector<FaultSpec> fs = faults_of(plan);
    // every top-level statement is its own unit in interactive mode
    std::vector<std::vector<json>> units; std::vector<json> all = program_statements(plan["ast"]);
    if (plan.contains("probe_ast")) for (auto& s : plan["probe_ast"]) all.push_back(s);
    std::string text;
    // a top-level return makes the interactive driver print the returned value: such programs are left to route 1
    std::function<bool(const json&)> has_return = [&](const json& n) -> bool { if (n.is_object()) { if (n.value("k", "") == "func") return false; if (n.value("k", "") == "return") return true; for (auto& kv : n.items()) if (has_return(kv.value())) return true; } else if (n.is_array()) for (auto& x : n) if (has_return(x)) return true; return false; };
    for (auto& s : all) if (has_return(s)) { ++res.probes["cli_skipped_top_level_return"]; return; }
    for (auto& s : all) { units.push_back({s}); text += print_stmt(s, 0); }
    RConfig rc; rc.faults = fs; RResult rr = ref_run_units(units, rc);
    if (rr.unsupported) { ++res.probes["cli_model_unsupported"]; return; }
    VfHost& host = VfHost::get(); host.reset(); host.arm(fs);
    StdinPlan sp; sp.tail = 0;
    // state of the session's context right before its last statement (the probe's final print) starts
    std::string last_residue;
    CliResult cr = run_cli({"bloc", "-i"}, &text, sp, 400 + 40 * rr.steps, [&](bloc::Context& c) { if (c.verifRoot() == &c) last_residue = check_residue(c); });
    ++res.probes["cli_sessions"];
    if (!cr.foreign.empty()) { fail("C07/exception-escaped-interactive-session", cr.foreign); return; }
    if (cr.budget_exceeded) { fail("C07/interactive-session-no-progress", "statement steps beyond budget"); return; }
    if (!last_residue.empty() && plan.contains("probe_ast")) { fail("C07/residue-in-interactive-session", last_residue + " (outcomes " + rr.outcome + ")"); return; }
    std::string t = cr.out; size_t nl = t.find("for more information.\n"); if (nl != std::string::npos) t = t.substr(nl + 22);
    t = std::regex_replace(t, std::regex("Error: [^\n]*\nElapsed: [0-9.]+\n"), "");
    t = std::regex_replace(t, std::regex("\nElapsed: [0-9.]+\n"), "");
    for (const char* pat : {">>> ", "... "}) { size_t p; std::string ps = pat; while ((p = t.find(ps)) != std::string::npos) t.erase(p, ps.size()); }
    if (t != rr.out) {
      size_t i = 0; while (i < t.size() && i < rr.out.size() && t[i] == rr.out[i]) ++i; size_t b = i > 40 ? i - 40 : 0;
      fail("C07/interactive-session-diverges-after-error", "printed results differ at byte " + std::to_string(i) + ": '" + printable(t.substr(b, 100), 140) + "' vs model '" + printable(rr.out.substr(b, 100), 140) + "' (outcomes " + rr.outcome + ")");
    }
  }
};

struct C07full : C07 {
  ExecResult execute(const json& plan) override {
    ExecResult res = C07::execute(plan);
    // route 2: the interactive driver (only plans without cancel: bloc_break has no CLI equivalent here)
    if (res.vclass.empty() && plan.value("cli", false) && plan.value("cancel_at", 0L) == 0) { C07cli::check(plan, res); bloc_deinit_plugins(); }
    return res;
  }
  json generate(uint64_t vseed, uint64_t runno, const std::string& tier) override {
    json p = C07::generate(vseed, runno, tier);
    p["cli"] = (runno % 4 == 1);
    // probe statements that would meet any constraint left behind by an interrupted loop: iterator names take another
    // type, iterated tables change length
    if (p.contains("probe_ast")) {
      json& pr = p["probe_ast"];
      for (const char* n : {"k0", "k1", "k2", "e0", "e1"}) pr.push_back(json{{"k", "let"}, {"n", n}, {"e", json{{"k", "str"}, {"v", "retyped"}}}});
      bool tables = false; for (auto& st : p["ast"]["prelude"]) if (st.value("k", "") == "let" && st.value("n", "") == "t0") tables = true;
      if (tables) for (const char* n : {"t0", "t1"}) pr.push_back(json{{"k", "do"}, {"e", json{{"k", "mth"}, {"m", "concat"}, {"o", json{{"k", "var"}, {"n", n}, {"t", "tabint"}}}, {"args", json::array({json{{"k", "int"}, {"v", 5}}})}, {"t", "tabint"}}}});
      pr.push_back(json{{"k", "print"}, {"es", json::array({json{{"k", "str"}, {"v", "probe done"}}})}});
      fill(p);
    }
    return p;
  }
  bool fork_per_run() const override { return true; }   // the interactive driver has process-wide statics
};

static ProfileRegistrar reg(new C07full());

} // namespace
