// C02 - the type fixed at compile time is the type produced at run time; one unit == statement-at-a-time.
// The schedule here is the schedule of compile units: the same statement list is fed as one unit, one statement
// at a time through the interactive parser, and in seeded groupings. Oracle: self-differential (whole unit is the
// reference) + per-step constraint invariant + static-vs-dynamic type monitor over expressions.
#include "core/profile.h"
#include "oracle/rharness.h"
#include "props/astutil.h"
#include <blocc/parse_expression.h>

using namespace sim;
using namespace sim::ast;

namespace {

struct GroupRun { std::string outcome, out; std::map<std::string, std::string> store; std::string constraint, residue; bool foreign = false; };

static GroupRun run_grouped(const std::vector<std::string>& units, bool interactive, const std::vector<std::string>* exprs, std::string* type_mismatch) {
  GroupRun g; VfHost::get().reset(); Capture cap;
  {
    bloc::Context ctx(cap.fd(), cap.fd()); ctx.trusted(true);
    std::vector<bloc::Executable*> exes; std::vector<InteractiveRun*> irs;
    StepGuard sg(100000);
    ConstraintMonitor cm;
    sg.extra = [&](bloc::Context& c, const bloc::Statement*) { cm.step(c); if (g.constraint.empty()) g.constraint = cm.violation; };
    g.outcome = "ok";
    for (auto& text : units) {
      if (interactive) {
        InteractiveRun* ir = new InteractiveRun(); irs.push_back(ir); bloc::StringReader rd(text); interactive_feed(ctx, rd, *ir);
        if (ir->parse_error.kind != Outcome::OK) { g.outcome = ir->parse_error.str(); if (ir->parse_error.kind == Outcome::FOREIGN) g.foreign = true; break; }
        if (ir->runtime_error.kind != Outcome::OK) { g.outcome = ir->runtime_error.str(); if (ir->runtime_error.kind == Outcome::FOREIGN) g.foreign = true; break; }
      } else {
        bloc::Executable* exe = nullptr; Outcome o = parse_text(ctx, text, exe);
        if (!o.ok()) { g.outcome = o.str(); g.foreign = o.kind == Outcome::FOREIGN; break; }
        exes.push_back(exe); ctx.returnCondition(false);
        Outcome ro = run_exe(exe);
        ctx.returnCondition(false); delete ctx.dropReturned();
        if (!ro.ok()) { g.outcome = ro.str(); g.foreign = ro.kind == Outcome::FOREIGN; break; }
      }
    }
    if (sg.exceeded) g.outcome += " STEP-BUDGET";
    if (ctx.ctxout()) fflush(ctx.ctxout());
    g.store = store_of(ctx); g.residue = check_residue(ctx);
    g.out = cap.read_all();   // before the monitor below evaluates further expressions
    // monitor: Expression::type taken in parsing mode == type of the value it evaluates to (when not opaque)
    if (exprs && type_mismatch && g.outcome == "ok") {
      for (auto& et : *exprs) {
        bloc::StringReader rd(et + " ;\n"); bloc::Parser* p = bloc::Parser::createInteractiveParser(ctx, rd); if (!p) continue;
        bloc::Expression* e = nullptr; bloc::Type st;
        try { ctx.parsingBegin(); e = bloc::ParseExpression::expression(*p, ctx); st = e->type(ctx); ctx.parsingEnd(); }
        catch (bloc::ParseError&) { ctx.parsingEnd(); delete p; continue; }
        try {
          bloc::Value& v = e->value(ctx);
          const bloc::Type& dt = v.type();
          bool opaque = st.major() == bloc::Type::NO_TYPE || (st.major() == bloc::Type::ROWTYPE && st.minor() == 0);
          if (!opaque && (dt.major() != st.major() || dt.level() != st.level() || (st.major() == bloc::Type::COMPLEX && dt.minor() != st.minor())) && type_mismatch->empty())
            *type_mismatch = "'" + et + "' compiled as " + type_str(st) + " but evaluated to " + type_str(dt);
        } catch (bloc::RuntimeError&) {} catch (std::exception&) {}
        ctx.purgeWorkingMemory();
        delete e; delete p;
      }
    }
    for (auto e : exes) delete e; for (auto r : irs) delete r;
  }
  return g;
}

static void collect_exprs(const json& n, std::vector<std::string>& out) {
  if (n.is_object()) {
    std::string k = n.value("k", "");
    if (k == "let" && n.contains("e")) out.push_back(print_expr(n["e"]));
    if ((k == "print" || k == "put") && n.contains("es")) for (auto& e : n["es"]) out.push_back(print_expr(e));
    if (k == "func") return;   // locals are not visible at top level
    for (auto& kv : n.items()) collect_exprs(kv.value(), out);
  } else if (n.is_array()) for (auto& x : n) collect_exprs(x, out);
}

static const char* BUILTIN_EXPRS[] = {
  "int(\"12\")", "int(raw(\"12\"))", "int(2.9)", "num(\"1.5\")", "num(raw(\"1.5\"))", "num(3)", "str(5)", "str(2.5)", "str(raw(\"ab\"))", "bool(1)", "bool(0.0)",
  "strlen(\"ab\")", "abs(-2)", "abs(-2.5)", "max(1, 2)", "max(1, 2.5)", "min(1.5, 2)", "min(3, 2)", "round(2.5)", "round(2.567, 2)", "floor(2.5)", "ceil(2.5)", "sign(-3)", "sign(-3.5)",
  "pow(2, 3)", "pow(2.0, 3)", "2 ** 3", "2 ** 0.5", "2.0 ** 2", "5 / 2", "5 / 2.0", "5 % 2", "5.5 % 2", "mod(5, 2)", "1 + 2.5", "2.5 - 1", "2 * 2.5", "-(2)", "-(2.5)", "~5", "5 & 3", "5 | 3", "5 ^ 3", "1 << 3", "16 >> 2",
  "tab(2, 1).at(0)", "tab(2, \"a\").count()", "tab(2, \"a\").at(1)", "tab(2, tab(1, 1.5)).at(0)", "tab(2, tab(1, 1.5)).at(0).at(0)", "tup(1, \"a\")@2", "tup(1, \"a\")@1", "tup(1, 2.5).count()", "tab(1, tup(1, \"z\")).at(0)@2",
  "\"a\" + \"b\"", "hex(255)", "chr(65)", "upper(\"a\")", "lower(\"A\")", "substr(\"abc\", 1)", "substr(\"abc\", 1, 1)", "lsubstr(\"abc\", 2)", "rsubstr(\"abc\", 2)", "strpos(\"abc\", \"b\")", "isnum(\"1\")", "isnull(1)",
  "b64enc(raw(\"a\"))", "b64dec(\"YQ==\")", "raw(\"ab\").at(0)", "raw(\"ab\").count()", "raw(3, 65)", "subraw(raw(\"abc\"), 1)", "hash(\"a\")", "hash(\"a\", 100)", "trim(\" a \")", "ltrim(\" a\")", "rtrim(\"a \")", "replace(\"aXa\", \"X\", \"-\")",
  "tokenize(\"a b\", \" \")", "tokenize(\"a b\", \" \").at(0)", "typeof(1)", "\"a\".concat(\"b\")", "\"abc\".at(1)", "\"abc\".put(0, 65)", "\"abc\".insert(0, \"z\")", "\"abc\".delete(0)", "\"abc\".count()",
  "1 < 2", "1 == 1.0", "\"a\" < \"b\"", "true and false", "true or null", "not true", "true xor false", "1 < null", "null", "int()", "num()", "str()", "bool()", "raw()", "tab()", "tup()",
  "pi", "ee", "phi", "ii", "2 * ii", "imag(ii)", "iconj(1 + ii)", "iphase(ii)", "exp(1)", "log(2)", "log10(100)", "sqrt(4)", "sqrt(2)", "sin(0)", "cos(0)", "tan(0)", "atan2(1, 1)", "sinh(0)", "clamp(5, 1, 3)", "clamp(2.5, 1, 3)",
  "\"ab\" matches \"a.\"", "5 power 2" };

struct C02 : Profile {
  const char* id() const override { return "C02"; }
  long budget(const std::string& tier) const override { return tier == "thorough" ? 200000 : 12000; }
  std::string rule() const override {
    return "plan = generated program (no injected runtime faults) + a schedule of compile units over its top-level statements: one unit (the reference), one statement at a time "
           "through the interactive parser (parse, execute, parse, execute ...), and seeded groupings; in the thorough tier every 2-way split of the statement list is "
           "enumerated by consecutive run numbers. Programs include statements that re-type variables, '$' constrained names, loops whose body assigns the iterator from an opaque "
           "function result of another type, typed and opaque function parameters. Oracle: when the whole unit compiles and runs without error every grouping gives the same "
           "output, outcome and final variable store; at every statement step each symbol under a type constraint holds a value of its major type; monitor (reported, not a "
           "schedule): for every top-level expression of the program and a catalogue of 140 built-in/operator/member expressions and an operand matrix (15 binary operators and 7 two-argument built-ins over 8 variables of known type holding boundary values, 11 unary forms), Expression::type in parsing mode == type of the "
           "evaluated value unless opaque. Non-trivial = the grouping has at least two units; distinct = distinct event-trace hash.";
  }
  json components() const override { return json{{"real", {"Parser::parse", "Parser::parseStatement (interactive)", "Context::registerSymbol/parsingEnd (symbol type view)", "Context::storeVariable (value type view)", "Symbol::check_safety", "Expression::type of every operator/builtin/member"}}, {"stub", json::array()}}; }
  std::vector<std::string> assumptions() const override { return {"the whole-unit run is the reference (no model)", "only programs whose whole-unit run compiles and ends without error are compared across groupings, as the property states"}; }
  json sample(const json& plan) const override { json s = plan; s.erase("ast"); if (s.contains("stmts") && s["stmts"].size() > 12) { json a = json::array(); for (size_t i = 0; i < 12; ++i) a.push_back(s["stmts"][i]); a.push_back("..."); s["stmts"] = a; } return s; }

  json generate(uint64_t vseed, uint64_t runno, const std::string& tier) override {
    const uint64_t gsz = 16; uint64_t group = runno / gsz, k = runno % gsz;
    Rng g(subseed(vseed, "C02/group", group));
    GenKnobs kn; kn.fault_points = g.chance(0.5); kn.fault_point_rate = 0.1; kn.natural_errors = false; kn.natural_error_rate = 0; kn.objects = kn.fault_points && g.chance(0.5);
    kn.top_statements = (int)g.range(4, 12); kn.functions = (int)g.range(0, 2); kn.max_depth = (int)g.range(1, 3); kn.returns = false;
    GenProgram p = gen_program(g, kn);
    std::vector<std::string> st; for (auto& s : program_statements(p.ast)) st.push_back(print_stmt(s, 0));
    // statements that move the compile-time view of a variable
    static const char* EXTRA[] = {
      "$c = 5;\nprint $c;\n", "$c = 5;\n$c = $c + 1;\nprint $c;\n", "rt = 1;\nrt = \"now a string\";\nrt = rt + \"!\";\nprint rt;\n", "rt2 = \"s\";\nrt2 = 2.5;\nprint rt2 * 2;\n",
      "function anyv(k) return undefined is\nbegin\n  if k == 1 then\n    return \"s\";\n  end if;\n  return 7;\nend;\n", "av = anyv(0);\nprint av + 1;\n", "av = anyv(1);\nprint av + \"x\";\n",
      "tq = tab(2, 1);\ntq = tab(2, \"s\");\nprint tq.at(0) + \"!\";\n", "uq = tup(1, \"a\");\nuq = tup(\"b\", 2);\nprint uq@1 + \"c\";\n", "nn = int();\nnn = 5;\nprint nn + 1;\n", "mm:string;\nmm = \"x\";\nprint mm;\n",
      "for lq in 1 to 2 loop\n  lq2 = lq * 2;\nend loop;\nlq = \"after\";\nprint lq;\n", "tz = tab(2, 3);\nforall ez in tz loop\n  ez = ez + 1;\nend loop;\nez = \"after\";\nprint ez tz.at(0);\n",
      "ty = tab(2, 3);\nforall ey in ty loop\n  ey = ey + 1;\nend loop;\nprint isnull(ey) isnull(ey);\nprint ey;\n",
      "nt = 1;\n", "nt = tup();\n", "print isnull(nt) isnull(nt.count());\n", "nv = \"s\";\nnv:tuple;\n", "print isnull(nv.count()) typeof(nv);\n", "nw = 2.5;\nnw = nt;\n", "print isnull(nw.count());\n" };
    // a compound statement whose never-executed branch re-types an existing variable twice, then separately compiled uses of the variable
    static const char* DEAD[] = {
      "dr = 1;\n", "if dr > 5 then\n  dr = \"big\";\n  print dr;\n  dr = 2.5;\nend if;\n", "print dr + 1;\n", "dq = dr * 2;\nprint dq;\n",
      "ds = \"s\";\n", "while ds == \"never\" loop\n  ds = 1;\n  ds = tab(1, 2);\n  ds = true;\nend loop;\n", "print ds + \"!\";\n" };
    // operands of the static-vs-dynamic monitor: the compile-time type is known, the value is not
    st.insert(st.begin(), "ma = (-2);\nmb = 3;\nmc = 0;\nmd = (-0.5);\nme = 2.0;\nmf = 1;\nmg = 40;\nmh = 0.0;\n");
    if (g.chance(0.3)) for (int i = 0; i < 4; ++i) st.push_back(DEAD[i]);   // (the while variant is compiled against the last type of the dead branch and is refused as a whole unit: not used)
    int ne = (int)g.range(2, 6);
    st.push_back(EXTRA[4]);   // the opaque function is declared once, in front of its uses
    for (int i = 0; i < ne; ++i) { size_t c = g.below(14); if (c == 4) continue; st.push_back(EXTRA[c]); }
    // a variable that held another type takes a null tuple; the statements that use it are compiled later, on their own
    if (g.chance(0.3)) { for (int i = 14; i <= 16; ++i) st.push_back(EXTRA[i]); if (g.chance(0.5)) { st.push_back(EXTRA[17]); st.push_back(EXTRA[18]); } if (g.chance(0.5)) { st.push_back(EXTRA[19]); st.push_back(EXTRA[20]); } }
    json plan; plan["property"] = "C02"; plan["ast"] = p.ast;
    json sj = json::array(); for (auto& s : st) sj.push_back(enc(s)); plan["stmts"] = sj;
    // the schedule of compile units
    Rng r(runseed(vseed, runno));
    size_t n = st.size(); json cuts = json::array();
    if (k == 0) plan["mode"] = "interactive";
    else if (k == 1) { plan["mode"] = "each"; }
    else if (tier == "thorough" && k < 14) { plan["mode"] = "cuts"; cuts.push_back(1 + ((group * 13 + k) % (n > 1 ? n - 1 : 1))); }
    else { plan["mode"] = "cuts"; int nc = (int)r.range(1, 4); std::set<long> cs; for (int i = 0; i < nc && n > 1; ++i) cs.insert(r.range(1, (long)n - 1)); for (long c : cs) cuts.push_back(c); }
    plan["cuts"] = cuts;
    std::vector<std::string> ex; collect_exprs(p.ast, ex);
    json ej = json::array(); for (size_t i = 0; i < ex.size() && i < 40; ++i) ej.push_back(enc(ex[i]));
    for (int i = 0; i < 12; ++i) ej.push_back(BUILTIN_EXPRS[(group * 12 + i) % (sizeof(BUILTIN_EXPRS) / sizeof(BUILTIN_EXPRS[0]))]);
    { // operand matrix: every binary operator and two-argument built-in over variables of known compile-time type (integer / decimal) and boundary values, 30 per group in rotation
      static const char* OPS[] = {"+", "-", "*", "/", "%", "**", "power", "&", "|", "^", "<<", ">>", "==", "<", ">="};
      static const char* FN2[] = {"pow", "mod", "max", "min", "atan2", "round", "hash"};
      static const char* FN1[] = {"abs", "sign", "floor", "ceil", "round", "int", "num", "sqrt", "exp", "-", "~"};
      static const char* VARS[] = {"ma", "mb", "mc", "md", "me", "mf", "mg", "mh"};
      std::vector<std::string> M;
      for (const char* o : OPS) for (const char* x : VARS) for (const char* y : VARS) M.push_back(std::string(x) + " " + o + " " + y);
      for (const char* f : FN2) for (const char* x : VARS) for (const char* y : VARS) M.push_back(std::string(f) + "(" + x + ", " + y + ")");
      for (const char* f : FN1) for (const char* x : VARS) M.push_back(f[1] ? std::string(f) + "(" + x + ")" : std::string(f) + x);
      for (int i = 0; i < 30; ++i) ej.push_back(M[(group * 30 + i) % M.size()]);
      // names the extra statements leave behind (skipped when the program does not define them)
      for (const char* n : {"ey", "ey + 1", "rt", "rt2", "av", "tq", "uq", "nn", "mm", "lq", "ez", "dr", "ds", "$c"}) ej.push_back(n);
    }
    plan["exprs"] = ej;
    { // assignments that would change the type of a constrained name: each runs on its own in a fresh context under the per-step monitor (refusing them, at compile or at run time, is fine)
      static const char* CP[] = {"$n = 10;\n$n = tab(3, 0);\nprint typeof($n);\n", "$t = tab(2, \"s\");\n$t = \"x\";\n", "$t = tab(2, \"s\");\n$t = tab(2, 1);\nprint $t;\n", "$t = tab(2, 1);\n$t = tab(1, tab(1, 1));\n",
        "for i in 1 to 2 loop\n  i = tab(1, 1);\nend loop;\n", "tt = tab(2, 1);\nforall e in tt loop\n  e = tab(1, 1);\nend loop;\n", "$n = 10;\n$n = 2.5;\n", "$s = \"a\";\n$s = 1;\n", "$u:table;\n$u = tab(1, 1);\n$u = tab(1, \"s\");\nprint $u;\n",
        "$b = true;\n$b = tab(1, true);\n", "tt = tab(2, \"a\");\nforall e in tt loop\n  e = 5;\nend loop;\n", "$w = tup(1, \"a\");\n$w = tab(1, tup(1, \"a\"));\n", "$n = 10;\nfunction setn() return integer is\nbegin\n  return 1;\nend;\n$n = tab(setn(), 0);\n"};
      json cp = json::array(); for (int i = 0; i < 3; ++i) cp.push_back(CP[(group * 3 + i) % (sizeof(CP) / sizeof(*CP))]); plan["constraint_probes"] = cp; }
    return plan;
  }

  ExecResult execute(const json& plan) override {
    ExecResult res; EventLog ev;
    auto fail = [&](const std::string& cls, const std::string& msg) { if (res.vclass.empty()) { res.vclass = cls; res.message = msg; } };
    std::vector<std::string> st; for (auto& s : plan.value("stmts", json::array())) st.push_back(dec(s.get<std::string>()));
    std::vector<std::string> exprs; for (auto& s : plan.value("exprs", json::array())) exprs.push_back(dec(s.get<std::string>()));
    std::string whole; for (auto& s : st) whole += s;
    std::string mism;
    GroupRun a = run_grouped({whole}, false, &exprs, &mism);
    ev.add("whole:" + a.outcome + "|" + a.out);
    if (a.foreign) fail("C02/foreign-exception", a.outcome);
    if (!a.constraint.empty()) fail("C02/type-constraint-broken", a.constraint + " (whole unit)");
    if (!mism.empty()) fail("C02/static-type-differs-from-value-type", mism);
    for (auto& cpj : plan.value("constraint_probes", json::array())) { GroupRun c = run_grouped({cpj.get<std::string>()}, false, nullptr, nullptr); ++res.probes[c.outcome == "ok" ? "constraint_probe_accepted" : "constraint_probe_refused"]; if (c.foreign) fail("C02/foreign-exception", c.outcome); if (!c.constraint.empty()) fail("C02/type-constraint-broken", c.constraint + " in '" + printable(cpj.get<std::string>(), 80) + "'"); }
    if (a.outcome != "ok") { ++res.probes["whole_unit_not_ok"]; ++res.probes["whole_unit_not_ok: " + a.outcome]; res.trace_hash = ev.hash(); bloc_deinit_plugins(); return res; }
    std::string mode = plan.value("mode", "cuts");
    std::vector<std::string> units;
    if (mode == "each" || mode == "interactive") units = st;
    else { std::vector<long> cuts; for (auto& c : plan.value("cuts", json::array())) cuts.push_back(c.get<long>()); size_t b = 0; std::string cur; for (size_t i = 0; i < st.size(); ++i) { if (std::find(cuts.begin(), cuts.end(), (long)i) != cuts.end() && !cur.empty()) { units.push_back(cur); cur.clear(); } cur += st[i]; } if (!cur.empty()) units.push_back(cur); (void)b; }
    res.nontrivial = units.size() > 1; ++res.probes["mode_" + mode]; res.faults["compile_unit_cuts"] = (long)units.size() - 1; res.faulty = units.size() > 1;
    GroupRun b = mode == "interactive" ? run_grouped({whole}, true, nullptr, nullptr) : run_grouped(units, false, nullptr, nullptr);
    ev.add(mode + ":" + b.outcome + "|" + b.out);
    if (b.foreign) fail("C02/foreign-exception", b.outcome);
    if (!b.constraint.empty()) fail("C02/type-constraint-broken", b.constraint + " (" + mode + ")");
    if (b.outcome != a.outcome) fail("C02/grouping-changes-outcome", mode + ": " + b.outcome + " vs whole unit " + a.outcome);
    else if (b.out != a.out) { size_t i = 0; while (i < a.out.size() && i < b.out.size() && a.out[i] == b.out[i]) ++i; size_t s0 = i > 30 ? i - 30 : 0; fail("C02/grouping-changes-output", mode + " at byte " + std::to_string(i) + ": '" + printable(b.out.substr(s0, 80), 120) + "' vs whole unit '" + printable(a.out.substr(s0, 80), 120) + "'"); }
    else if (b.store != a.store) { std::string d; for (auto& kv : a.store) { auto it = b.store.find(kv.first); if (it == b.store.end() || it->second != kv.second) { d = kv.first + " = " + (it == b.store.end() ? std::string("(missing)") : it->second) + " vs " + kv.second; break; } } fail("C02/grouping-changes-variables", mode + ": " + printable(d, 200)); }
    else if (!b.residue.empty()) fail("C02/residue", b.residue);
    bloc_deinit_plugins();
    res.trace_hash = ev.hash();
    return res;
  }

  std::vector<json> shrink(const json& plan) override {
    std::vector<json> v; json st = plan.value("stmts", json::array());
    for (size_t i = 0; i < st.size(); ++i) { json p = plan; p["stmts"].erase(p["stmts"].begin() + i); json nc = json::array(); for (auto& c : p["cuts"]) { long x = c.get<long>(); if ((size_t)x > i) --x; if (x >= 1) nc.push_back(x); } p["cuts"] = nc; v.push_back(p); }
    json ex = plan.value("exprs", json::array());
    if (ex.size() > 1) for (size_t i = 0; i < ex.size(); ++i) { json p = plan; p["exprs"] = json::array({ex[i]}); v.push_back(p); }
    json cuts = plan.value("cuts", json::array());
    for (size_t i = 0; i < cuts.size() && cuts.size() > 1; ++i) { json p = plan; p["cuts"].erase(p["cuts"].begin() + i); v.push_back(p); }
    return v;
  }
};

static ProfileRegistrar reg(new C02());

} // namespace
