// C14 - cloned contexts are independent, also when run concurrently on several threads.
// World: a root context builds setup + one shared compiled program; k clones run it on k task
// threads under the seeded serialising scheduler (hand-off invisible to ThreadSanitizer), plus a
// lifecycle task (purge/free/break). Real: everything in blocc. Stub: none.
#include "core/profile.h"
#include "core/sched.h"
#include "core/util.h"
#include "gen/gen.h"
#include "oracle/dump.h"
#include "oracle/world.h"
#include "seams/capture.h"
#include "seams/hooks.h"
#include "seams/sanreports.h"
#include "seams/vfhost.h"
#include <blocc/plugin_manager.h>
#include <blocc/bloc_capi.h>
#include <memory>

using namespace sim;
extern "C" { extern volatile int sim_atomic_yield_mode; extern volatile long sim_atomic_yield_count; }

namespace {

struct Obs {
  std::string out; std::string outcome; std::string errtext; std::string dump; std::string residue; bool ran = false;
  std::string str() const { return "outcome=" + outcome + " text='" + errtext + "' out='" + printable(out, 300) + "' dump={" + printable(dump, 600) + "}" + (residue.empty() ? "" : " residue=" + residue); }
  bool operator==(const Obs& o) const { return out == o.out && outcome == o.outcome && errtext == o.errtext && dump == o.dump && residue == o.residue; }
};

static std::string first_difference(const Obs& a, const Obs& b) {
  if (a.outcome != b.outcome) return "outcome " + a.outcome + " vs " + b.outcome;
  if (a.errtext != b.errtext) return "error text '" + a.errtext + "' vs '" + b.errtext + "'";
  if (a.out != b.out) return "output '" + printable(a.out, 160) + "' vs '" + printable(b.out, 160) + "'";
  if (a.dump != b.dump) {
    // first differing line
    size_t i = 0, j = 0;
    while (i < a.dump.size() && j < b.dump.size()) {
      size_t e1 = a.dump.find('\n', i), e2 = b.dump.find('\n', j);
      std::string l1 = a.dump.substr(i, e1 - i), l2 = b.dump.substr(j, e2 - j);
      if (l1 != l2) return "variables '" + printable(l1, 120) + "' vs '" + printable(l2, 120) + "'";
      if (e1 == std::string::npos || e2 == std::string::npos) break; i = e1 + 1; j = e2 + 1;
    }
    return "variables differ";
  }
  if (a.residue != b.residue) return "residue '" + a.residue + "' vs '" + b.residue + "'";
  return "";
}

static DumpOpts dopts() { DumpOpts o; o.objects_by_id = false; return o; }

// run `exe` in `ctx` the way an embedder does (bloc_reset_stop, bloc_execute2, read the error at once)
static Obs run_in(bloc::Context& ctx, Capture& cap, bloc::Executable* exe) {
  Obs o; o.ran = true;
  ctx.returnCondition(false);
  Outcome oc = run_exe(ctx, exe);
  o.outcome = oc.str(); o.errtext = oc.text;
  if (ctx.ctxout()) fflush(ctx.ctxout());
  o.out = cap.read_all();
  o.dump = dump_context(ctx, dopts());
  ctx.returnCondition(false);
  o.residue = check_residue(ctx);
  return o;
}

struct C14 : Profile {
  const char* id() const override { return "C14"; }
  long budget(const std::string& tier) const override { return tier == "thorough" ? 60000 : 5000; }
  bool fork_per_run() const override { return true; }
  std::string rule() const override {
    return "plan = generated program (functions, recursion, tables, tuples, handled/unhandled errors, vf fault points) + 2..8 clone tasks + "
           "sparse preemption list over yield points (statement entry, temporary allocation, every vf plugin call) + per-task fault list + lifecycle "
           "operation (purge/free/break of the original or of a clone, clone-of-clone, original run before cloning). Each task's bytes on its own "
           "descriptor, outcome, error text and final deep variable dump must equal the same program run alone in a fresh never-cloned context and in a "
           "fresh clone; the original must be unchanged; ThreadSanitizer (tsan flavour, hand-off invisible) must report no race with both stacks in /repo; "
           "AddressSanitizer silent (asan flavour). Non-trivial = at least one preemption happened or a fault fired or a lifecycle operation ran; distinct = distinct event-trace hash.";
  }
  json components() const override { return json{{"real", {"bloc::Context::clone", "FunctorManager (function shells, runtime context cache)", "Executable::run on shared statement/expression trees", "Value/Collection/Tuple/Complex", "PluginManager + vf module"}}, {"stub", json::array()}}; }
  std::vector<std::string> assumptions() const override { return {"interleavings are decided at hook points (statement, temporary allocation, plugin call), finer races are found by TSan's happens-before analysis over the serialised run", "random/getenv/input are not generated (documented process-global inputs)", "object state (vf.set/get) is not generated: objects are shared by reference as documented"}; }
  json sample(const json& plan) const override { json s = plan; s.erase("ast"); if (s.contains("text_body") && s["text_body"].get<std::string>().size() > 600) s["text_body"] = s["text_body"].get<std::string>().substr(0, 600) + "..."; if (s.contains("text_setup") && s["text_setup"].get<std::string>().size() > 400) s["text_setup"] = s["text_setup"].get<std::string>().substr(0, 400) + "..."; return s; }

  static bool has_shared_v(const json& ast) { for (auto& s : ast["prelude"]) if (s.value("k", "") == "let" && s.value("n", "") == "v") return true; return false; }
  void fill_text(json& plan) {
    const json& ast = plan["ast"];
    std::vector<json> setup; for (auto& s : ast["prelude"]) setup.push_back(s); for (auto& s : ast["funcs"]) setup.push_back(s);
    std::vector<json> body;
    // a function of the shared setup declared again by the concurrently running program: every context installs the new body for itself only
    if (plan.value("redeclare", false) && !ast["funcs"].empty()) { json f = ast["funcs"][0]; json nb = json::array(); nb.push_back(json{{"k", "print"}, {"es", json::array({json{{"k", "str"}, {"v", "redeclared"}}})}}); for (auto& s : f["body"]) nb.push_back(s); f["body"] = nb; body.push_back(f); }
    // every clone drops the handle of the module object it shares with the original and its siblings (v of the shared setup) as its first statement
    if (plan.value("release_shared", false) && has_shared_v(ast)) body.push_back(json{{"k", "let"}, {"n", "v"}, {"e", json{{"k", "vfnew"}, {"tag", nullptr}, {"t", "obj"}}}});
    for (auto& s : ast["body"]) body.push_back(s);
    plan["text_setup"] = enc(print_statements(setup)); plan["text_body"] = enc(print_statements(body));
  }

  json generate(uint64_t vseed, uint64_t runno, const std::string& tier) override {
    Rng r(runseed(vseed, runno));
    json plan; plan["property"] = "C14";
    GenKnobs k; k.top_statements = (int)r.range(3, 10); k.functions = (int)r.range(0, 2); k.max_depth = (int)r.range(1, 3);
    k.natural_error_rate = r.chance(0.5) ? 0.0 : 0.02; k.natural_errors = k.natural_error_rate > 0; k.fault_point_rate = r.chance(0.3) ? 0.0 : 0.15;
    k.tables = r.chance(0.8); k.tuples = r.chance(0.6); k.objects = r.chance(0.6); k.returns = r.chance(0.3); k.loop_max_iter = 3;
    Rng gr(subseed(runseed(vseed, runno), "gen"));
    GenProgram p = gen_program(gr, k);
    strip_object_state(p.ast);
    plan["ast"] = p.ast; plan["redeclare"] = r.chance(0.3);
    // handle-release scenario: atomic operations of the library are scheduling points (tsan flavour), dense seeded switching, every clone releases the shared object first
    Rng ar(subseed(runseed(vseed, runno), "atomic"));
    const bool storm = has_shared_v(p.ast) && ar.chance(0.25);
    plan["release_shared"] = storm || (has_shared_v(p.ast) && ar.chance(0.1));
    plan["yield_atomic"] = storm || ar.chance(0.1);
    fill_text(plan);
    int maxt = tier == "thorough" ? 8 : 4;
    int nt = (int)r.range(2, r.chance(0.7) ? 3 : maxt);
    plan["ntasks"] = nt;
    // preemptions: uniform gaps, PCT-like bursts, or none
    Rng sr(subseed(runseed(vseed, runno), "sched"));
    json sw = json::array(); int nsw = (int)sr.weighted({1, 2, 2, 2, 1, 1, 1}); long at = sr.range(0, 30);
    for (int i = 0; i < nsw; ++i) { sw.push_back(json::array({at, (long)sr.below(nt + 1)})); at += sr.chance(0.3) ? sr.range(1, 4) : sr.range(1, 80); }
    plan["switches"] = sw;
    plan["yield_alloc"] = sr.chance(0.5);
    // finer interleavings: every debug trace point of the library (value / handle constructors and destructors, symbol updates) is a scheduling point too
    plan["yield_trace"] = sr.chance(0.35);
    if (plan["yield_trace"].get<bool>()) { for (auto& w : sw) w[0] = w[0].get<long>() * (long)sr.pick(std::vector<long>{1, 4, 16}) + sr.range(0, 15); plan["switches"] = sw; }
    // faults per task
    Rng fr(subseed(runseed(vseed, runno), "fault"));
    json faults = json::array();
    if (p.fault_points > 0) for (int t = 0; t < nt; ++t) if (fr.chance(0.45)) {
      static const struct { int code; const char* arg; const char* kind; } K[] = {{21, "", "rt_catchable"}, {23, "", "rt_catchable"}, {1, "MYERR", "rt_catchable"}, {22, "7", "rt_fatal"}, {25, "integer", "rt_fatal"}};
      auto& f = K[fr.below(5)];
      faults.push_back(json{{"task", t}, {"point", fr.range(1, p.fault_points)}, {"visit", fr.range(1, 2)}, {"code", f.code}, {"arg", f.arg}, {"kind", f.kind}});
    }
    plan["faults"] = faults;
    if (storm) {   // dense switching over the first yields: each yield switches with probability p to a seeded task
      double pr = ar.pick(std::vector<double>{0.05, 0.15, 0.3}); json dsw = json::array();
      for (long n = 0; n < 400; ++n) if (ar.chance(pr)) dsw.push_back(json::array({n, (long)ar.below(nt + 1)}));
      plan["switches"] = dsw; plan["yield_alloc"] = false; plan["yield_trace"] = false;
    }
    static const char* LIFE[] = {"none", "none", "none", "purge_orig", "free_orig", "break_orig", "break_clone0", "free_orig_before", "purge_orig_before", "clone_of_clone"};
    plan["life"] = LIFE[fr.below(10)];
    if (storm && ar.chance(0.6)) plan["life"] = ar.chance(0.5) ? "free_orig_before" : "purge_orig_before";
    plan["pre_run"] = fr.chance(0.4);
    return plan;
  }

  // vf.set/get would make shared object state observable (legitimately shared): not generated here
  static void strip_object_state(json& n) {
    if (n.is_object()) {
      if (n.value("k", "") == "vfm" && (n.value("m", "") == "set" || n.value("m", "") == "get")) { n = json{{"k", "int"}, {"v", 0}}; return; }
      for (auto& kv : n.items()) strip_object_state(kv.value());
      if (n.value("k", "") == "do" && n["e"].value("k", "") == "int") n = json{{"k", "nop"}};
    } else if (n.is_array()) for (auto& x : n) strip_object_state(x);
  }

  ExecResult execute(const json& plan) override {
    ExecResult res; EventLog ev;
    off_t mark = stderr_mark();
    VfHost& host = VfHost::get(); host.reset();
    std::vector<FaultSpec> fs;
    for (auto& f : plan.value("faults", json::array())) { FaultSpec s; s.task = f.value("task", -1); s.point = f.value("point", 0L); s.visit = f.value("visit", 1L); s.code = f.value("code", 21); s.arg = f.value("arg", ""); s.kind = f.value("kind", "rt"); fs.push_back(s); }
    host.arm(fs);
    const std::string setup = dec(plan.value("text_setup", "")), body = dec(plan.value("text_body", ""));
    const int nt = plan.value("ntasks", 2);
    const std::string life = plan.value("life", "none");
    const bool pre_run = plan.value("pre_run", false);
    const int PRE = 90;

    auto fail = [&](const std::string& cls, const std::string& msg) { if (res.vclass.empty()) { res.vclass = cls; res.message = msg; } };

    // ---- R1: the same source alone in a fresh, never-cloned context (one per task: faults differ)
    std::vector<Obs> R1(nt), R2(nt), got(nt);
    bool setup_ok = true;
    for (int t = 0; t < nt && setup_ok; ++t) {
      Capture cap; bloc::Context f(cap.fd(), cap.fd()); f.trusted(true);
      bloc::Executable *se = nullptr, *be = nullptr;
      Outcome o = parse_text(f, setup, se);
      if (o.ok()) { o = run_exe(se); }
      if (!o.ok()) { setup_ok = false; ev.add("setup:" + o.str()); delete se; break; }
      o = parse_text(f, body, be);
      if (!o.ok()) { setup_ok = false; ev.add("body:" + o.str()); delete se; break; }
      if (pre_run) { host.actor = PRE; run_in(f, cap, be); cap.reset(); host.visits.clear(); }
      host.actor = t; R1[t] = run_in(f, cap, be); host.actor = -1; host.visits.clear();
      delete be; delete se;
    }
    if (!setup_ok) { res.trace_hash = ev.hash(); ++res.probes["program_not_usable"]; return res; }

    // ---- the original, its shared compiled program, and the clones
    Capture capO; bloc::Context* orig = new bloc::Context(capO.fd(), capO.fd()); orig->trusted(true);
    bloc::Executable *se = nullptr, *be = nullptr;
    { Outcome o = parse_text(*orig, setup, se); if (o.ok()) o = run_exe(se); if (o.ok()) o = parse_text(*orig, body, be); if (!o.ok()) { fail("M/harness-setup-differs", o.str()); res.trace_hash = ev.hash(); return res; } }
    if (pre_run) { host.actor = PRE; run_in(*orig, capO, be); host.actor = -1; host.visits.clear(); }
    fflush(orig->ctxout());
    const std::string origOut = capO.read_all(); const std::string origDump = dump_context(*orig, dopts());
    const std::vector<std::string> origFns = dump_functors(*orig, false, true);

    // ---- R2: the shared program alone in a fresh clone
    for (int t = 0; t < nt; ++t) {
      Capture cap; bloc::Context* c = orig->clone(cap.fd(), cap.fd());
      host.actor = t; R2[t] = run_in(*c, cap, be); host.actor = -1; host.visits.clear();
      delete c;
    }
    for (int t = 0; t < nt; ++t) if (!(R1[t] == R2[t])) fail("C14/sequential-clone-differs-from-fresh-context", "task " + std::to_string(t) + ": " + first_difference(R2[t], R1[t]) + " (clone alone vs fresh context)");

    // ---- concurrent phase
    std::vector<std::unique_ptr<Capture>> caps; std::vector<bloc::Context*> clones(nt, nullptr);
    for (int t = 0; t < nt; ++t) {
      caps.emplace_back(new Capture());
      bloc::Context* src = (life == "clone_of_clone" && t > 0) ? clones[t - 1] : orig;
      clones[t] = src->clone(caps[t]->fd(), caps[t]->fd());
    }
    bool orig_alive = true;
    if (life == "free_orig_before") { delete orig; orig = nullptr; orig_alive = false; ++res.probes["orig_freed_before_tasks"]; }
    if (life == "purge_orig_before") { orig->purge(); orig_alive = false; ++res.probes["orig_purged_before_tasks"]; }

    Hooks hooks; const bool yield_alloc = plan.value("yield_alloc", false);
    hooks.on_statement = [](bloc::Context&, const bloc::Statement*) { Sched::yield(); };
    if (yield_alloc) hooks.on_allocate = [](bloc::Context&) { Sched::yield(); };
    if (plan.value("yield_trace", false)) { hooks.on_trace = []() { Sched::yield(); }; ++res.probes["plans_with_trace_point_yields"]; }
    hooks.install();
    const bool yield_atomic = plan.value("yield_atomic", false);
    sim_atomic_yield_count = 0; sim_atomic_yield_mode = yield_atomic ? 1 : 0;
    if (yield_atomic) ++res.probes["plans_with_atomic_operation_yields"];
    if (plan.value("release_shared", false)) ++res.probes["plans_releasing_the_shared_object_in_every_clone"];
    Sched sched; std::vector<int> done(nt, 0); bool life_ran = false;
    for (int t = 0; t < nt; ++t) sched.add([&, t]() { got[t] = run_in(*clones[t], *caps[t], be); done[t] = 1; });
    sched.add([&]() {   // lifecycle task: runs when the plan switches to it (or last)
      life_ran = true;
      if (life == "purge_orig" && orig) { orig->purge(); orig_alive = false; }
      else if (life == "free_orig" && orig) { delete orig; orig = nullptr; orig_alive = false; }
      else if (life == "break_orig" && orig) { bloc_break(reinterpret_cast<bloc_context*>(orig)); }
      else if (life == "break_clone0") { bloc_break(reinterpret_cast<bloc_context*>(clones[0])); }
    });
    std::vector<std::pair<long, int>> sw; for (auto& s : plan.value("switches", json::array())) sw.push_back({s[0].get<long>(), s[1].get<int>()});
    sched.run(sw, 0);
    Hooks::remove();
    sim_atomic_yield_mode = 0; if (sim_atomic_yield_count > 0) res.probes["yields_at_atomic_operations"] += sim_atomic_yield_count;
    res.steps = sched.yields;
    for (size_t i = 0; i + 3 <= sched.trace.size(); i += 3) ev.add("sw:" + std::to_string(sched.trace[i]) + ":" + std::to_string(sched.trace[i + 1]) + ">" + std::to_string(sched.trace[i + 2]));
    if (sched.switches > nt + 1) res.nontrivial = true;   // more than the hand-overs at task exit
    res.probes["preemptions"] = sched.switches > nt + 1 ? sched.switches - (nt + 1) : 0;
    if (life != "none") { res.nontrivial = true; ++res.faults["lifecycle_" + life]; }
    if (host.fired > 0) { res.nontrivial = true; res.faulty = true; for (auto& kv : host.fired_by_kind) res.faults[kv.first] += kv.second; }
    (void)life_ran;

    // ---- compare
    bool broke0 = (life == "break_clone0");
    for (int t = 0; t < nt; ++t) {
      ev.add("task" + std::to_string(t) + ":" + got[t].outcome + "|" + got[t].out + "|" + got[t].dump);
      if (broke0 && t == 0) { if (!got[t].residue.empty()) fail("C14/residue-after-break", "task 0: " + got[t].residue); continue; }
      if (!(got[t] == R1[t])) {
        std::string d = first_difference(got[t], R1[t]);
        bool seq_ok = R2[t] == R1[t];
        fail(seq_ok ? "C14/concurrent-run-diverges" : "C14/clone-run-diverges", "task " + std::to_string(t) + ": " + d + " (concurrent clone vs fresh context alone)");
      }
    }
    if (orig && orig_alive) {
      fflush(orig->ctxout());
      if (life == "break_orig") orig->returnCondition(false);
      std::string d2 = dump_context(*orig, dopts());
      if (d2 != origDump) fail("C14/original-changed-by-clones", "variables of the original differ after the clones ran");
      if (capO.read_all() != origOut) fail("C14/original-output-written-by-clones", "output of the original grew while clones ran: '" + printable(capO.read_all().substr(origOut.size()), 160) + "'");
      if (dump_functors(*orig, false, true) != origFns) fail("C14/original-functions-changed", "function table of the original differs");
    }
    // ---- release everything; every vf object destroyed exactly once
    for (auto c : clones) delete c;
    delete be; delete se;
    if (orig) delete orig;
    for (auto& o : host.objects) {
      if (o.destroyed != 1) fail("C14/object-not-destroyed-exactly-once", "vf object #" + std::to_string(o.oid) + " destroyed " + std::to_string(o.destroyed) + " times");
      if (o.methods_dead) fail("C14/method-on-dead-object", "vf object #" + std::to_string(o.oid));
    }
    // ---- sanitizer reports of this run
    std::string err = stderr_since(mark);
    std::set<std::string> races;
    for (auto& rr : parse_tsan(err)) { if (rr.a.empty() || (rr.b.empty() && rr.kind == "data race")) continue; races.insert(rr.kind + ": " + rr.sig()); }
    for (auto& s : races) ev.add("tsan:" + s);
    if (!races.empty()) { std::string all; for (auto& s : races) all += s + "; "; fail("C14/race: " + *races.begin(), std::to_string(races.size()) + " race report(s) with both stacks in /repo: " + all); res.probes["tsan_reports"] = (long)races.size(); }
    res.trace_hash = ev.hash();
    return res;
  }

  std::vector<json> shrink(const json& plan) override {
    std::vector<json> v;
    // drop faults, drop switches, simplify lifecycle, fewer tasks, then the program
    json f = plan.value("faults", json::array());
    for (size_t i = 0; i < f.size(); ++i) { json p = plan; p["faults"].erase(p["faults"].begin() + i); v.push_back(p); }
    json sw = plan.value("switches", json::array());
    if (!sw.empty()) { json p = plan; p["switches"] = json::array(); v.push_back(p); }
    for (size_t i = 0; i < sw.size(); ++i) { json p = plan; p["switches"].erase(p["switches"].begin() + i); v.push_back(p); }
    if (plan.value("life", "none") != "none") { json p = plan; p["life"] = "none"; v.push_back(p); }
    if (plan.value("pre_run", false)) { json p = plan; p["pre_run"] = false; v.push_back(p); }
    if (plan.value("yield_alloc", false)) { json p = plan; p["yield_alloc"] = false; v.push_back(p); }
    if (plan.value("yield_trace", false)) { json p = plan; p["yield_trace"] = false; v.push_back(p); }
    if (plan.value("yield_atomic", false)) { json p = plan; p["yield_atomic"] = false; v.push_back(p); }
    if (plan.value("release_shared", false)) { json p = plan; p["release_shared"] = false; fill_text(p); v.push_back(p); }
    if (sw.size() > 8) { json p = plan; json h = json::array(); for (size_t i = 0; i < sw.size() / 2; ++i) h.push_back(sw[i]); p["switches"] = h; v.push_back(p); json q = plan; json h2 = json::array(); for (size_t i = sw.size() / 2; i < sw.size(); ++i) h2.push_back(sw[i]); q["switches"] = h2; v.push_back(q); }
    if (plan.value("redeclare", false)) { json p = plan; p["redeclare"] = false; fill_text(p); v.push_back(p); }
    if (plan.value("ntasks", 2) > 2) { json p = plan; p["ntasks"] = plan.value("ntasks", 2) - 1; json nf = json::array(); for (auto& x : p["faults"]) if (x.value("task", 0) < p["ntasks"].get<int>()) nf.push_back(x); p["faults"] = nf; v.push_back(p); }
    if (plan.contains("ast")) for (json& a : shrink_ast(plan["ast"])) { json p = plan; p["ast"] = a; fill_text(p); v.push_back(p); if (v.size() > 250) break; }
    return v;
  }
};

static ProfileRegistrar reg(new C14());

} // namespace
