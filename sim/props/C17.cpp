// C17 - every module object is destroyed exactly once, after its last reference is gone.
// World: one root context + its function contexts + clones (sequential; the threaded variant runs in
// C14's plans, which check the same ledger). The vf plugin logs create/destroy/method events.
// Faults: runtime errors at vf fault points, natural errors, cancel (bloc_break) before a statement,
// purge / clone / free in every order.
#include "core/profile.h"
#include "core/util.h"
#include "gen/gen.h"
#include "oracle/dump.h"
#include "oracle/world.h"
#include "oracle/stepguard.h"
#include "seams/capture.h"
#include "seams/vfhost.h"
#include <blocc/bloc_capi.h>
#include <memory>
#include <set>

using namespace sim;

namespace {

struct C17 : Profile {
  const char* id() const override { return "C17"; }
  long budget(const std::string& tier) const override { return tier == "thorough" ? 300000 : 20000; }
  std::string rule() const override {
    return "plan = generated program with vf objects created, copied (b = a), stored into tables and tuples, passed to and returned from functions, overwritten, iterated "
           "(forall over a table of objects), used as temporaries (vf(1).me().tag()), with fault points / natural errors / cancel at statement #k as error exits, followed by a "
           "host history (run again, clone, run in clone, purge, free clone, free original in every order). Oracle: the plugin's event log - each id created once, destroyed "
           "once, never a method on a dead object or on an object of the other module, argument dumps seen by the plugin are among the literal argument lists the script wrote; "
           "at every top-level statement boundary and after every host step no variable, table element or tuple item of any live context refers to a destroyed object "
           "(no earlier); after everything is released every id is destroyed (no later). Non-trivial = at least 2 objects created and an error exit, cancel or lifecycle step; "
           "distinct = distinct event-trace hash.";
  }
  json components() const override { return json{{"real", {"bloc::Complex (shared handle)", "Value::clone/_clear/swap", "Collection/Tuple copy", "temporary pool", "FunctorManager runtime contexts", "Context::clone/purge", "member_complex method dispatch"}}, {"stub", json::array()}}; }
  std::vector<std::string> assumptions() const override { return {"destruction may be delayed until the temporary pool slot is reused or the context is released (the manual says so), so only 'not earlier' is checked while running and 'not later' after release"}; }
  json sample(const json& plan) const override { json s = plan; s.erase("ast"); if (s.contains("text") && s["text"].get<std::string>().size() > 900) s["text"] = s["text"].get<std::string>().substr(0, 900) + "..."; return s; }

  static std::vector<std::string> object_statements(Rng& r, std::vector<std::string>& allowed_args, int& uniq) {
    std::vector<std::string> out;
    auto sum = [&]() { int a = 70000 + (++uniq), b = (int)r.range(1, 9); allowed_args.push_back(std::to_string(a) + "," + std::to_string(b)); return "sum(" + std::to_string(a) + ", " + std::to_string(b) + ")"; };
    auto echo = [&]() { std::string w = "w" + std::to_string(++uniq); allowed_args.push_back("\"" + w + "\""); return "echo(\"" + w + "\")"; };
    static const char* pool[] = {
      "oa = vf(11);", "ob = oa;", "oa = vf(12);", "ob = vf(13).me();", "oc = ob.me().me();", "oa = ob;", "ob = null;", "oc = oa;",
      "ot = tab(2, vf(21));", "do ot.concat(vf(22));", "do ot.put(0, oa);", "do ot.insert(0, vf(23));", "oc = ot.at(0);", "if ot.count() > 1 then do ot.delete(0); end if;", "ot2 = ot;", "ot = tab(1, oa);",
      "ou = tup(1, vf(31), \"x\");", "do ou.set@2(oa);", "oc = ou@2;", "ou2 = ou;",
      "forall oe in ot loop print oe.tag(); end loop;", "forall oe in ot loop oe = vf(41); end loop;",
      "oc = opass(oa);", "oc = opass(vf(51));", "oc = omake(52);", "print omake(53).tag();", "do okeep(oa);", "print vf(61).me().me().tag();",
      "print vf(62).tag() + vf(63).tag();", "begin oc = vf(71); raise OOPS; exception when OOPS then print \"h\" oc.tag(); end;",
      "begin oc = opass(vf(72)); ob = omake(0 / 0); exception when others then print error@1; end;", "print isnull(ob);", "print oa.tag();",
      "for k in 1 to 3 loop oc = vf(80 + k); if k == 2 then break; end if; end loop;", "w9 = 0; while w9 < 2 loop w9 = w9 + 1; ob = vf(90); end loop;",
      // an element written through the iterator and read again in the same iteration
      // a copy taken from the element just written must not take the object away from the table (EXPECT:<wanted>:<printed> tokens are compared after the run)
      "if not isnull(ot) then forall oe in ot loop oe = vf(44); oc = oe; ob = oe; end loop; forall oe in ot loop print \"EXPECT:FALSE:\" isnull(oe) \" EXPECT:44:\" oe.tag(); end loop; end if;",
      "if not isnull(ot) then forall oe in ot loop oe = oa; ou = tup(1, oe, \"z\"); end loop; forall oe in ot loop print \"EXPECT:FALSE:\" isnull(oe) \" EXPECT:FALSE:\" isnull(ou@2); end loop; end if;",
      "forall oe in ot loop oe = vf(42); oc = oe; print oe.tag(); end loop;", "forall oe in ot loop oe = oa; ou = tup(1, oe, \"y\"); print oe.tag() isnull(oe); end loop;", "forall oe in ot loop oe = vf(43); do okeep(oe); print opass(oe).tag(); end loop;" };
    int n = (int)r.range(4, 14);
    for (int i = 0; i < n; ++i) {
      switch (r.below(8)) {
      case 0: out.push_back("print oa." + sum() + ";"); break;
      case 1: out.push_back("print vf(7)." + echo() + ";"); break;
      default: out.push_back(pool[r.below(sizeof(pool) / sizeof(pool[0]))]);
      }
    }
    // wide statements: one statement that needs many temporaries (the pool of temporaries grows, is recycled and may be trimmed at the end of the
    // statement), each temporary a discarded module object; the width is a per-run knob so no slot index is privileged
    if (r.chance(0.35)) {
      int w = (int)r.range(2, 110);
      switch (r.below(3)) {
      case 0: out.push_back("on4 = tab(" + std::to_string(w) + ", vf(" + std::to_string(100 + (int)r.below(50)) + ").tag());"); break;
      case 1: { std::string e = "0"; for (int i = 0; i < w && i < 70; ++i) e += " + vf(" + std::to_string(200 + i) + ").tag()"; out.push_back("print " + e + ";"); break; }
      default: out.push_back("on5 = 0;\nfor wi in 1 to " + std::to_string(1 + w / 8) + " loop\n  on4 = tab(" + std::to_string(w) + ", vf(wi).me().tag());\n  on5 = on5 + on4.count();\nend loop;"); break;
      }
    }
    return out;
  }

  json generate(uint64_t vseed, uint64_t runno, const std::string&) override {
    Rng r(runseed(vseed, runno));
    json plan; plan["property"] = "C17";
    GenKnobs k; k.objects = true; k.fault_points = true; k.top_statements = (int)r.range(2, 7); k.functions = (int)r.range(0, 2); k.max_depth = (int)r.range(1, 3);
    k.natural_error_rate = r.chance(0.5) ? 0.0 : 0.02; k.natural_errors = k.natural_error_rate > 0; k.returns = r.chance(0.2); k.loop_max_iter = 3;
    Rng gr(subseed(runseed(vseed, runno), "gen"));
    GenProgram p = gen_program(gr, k);
    std::vector<std::string> allowed; int uniq = 0;
    std::string setup = print_statements([&] { std::vector<json> v; for (auto& s : p.ast["prelude"]) v.push_back(s); for (auto& s : p.ast["funcs"]) v.push_back(s); return v; }());
    setup += "function opass(o:vf) return vf is\nbegin\n  return o;\nend;\n"
             "function omake(t) return vf is\nbegin\n  loc = vf(t);\n  tmp = vf(t + 1);\n  return loc;\nend;\n"
             "function okeep(o:vf) return integer is\nbegin\n  held = o;\n  return 1;\nend;\n"
             "import vg;\nfunction otag(o:vf) return integer is\nbegin\n  return o.tag() + o.get();\nend;\nog = vg(9);\n"
             "oa = vf(1);\nob = oa;\noc = vf(2);\not = tab(1, vf(3));\not2 = ot;\nou = tup(1, vf(4), \"x\");\nou2 = ou;\n";
    std::vector<std::string> body; for (auto& s : p.ast["body"]) body.push_back(print_stmt(s, 0));
    for (auto& t : object_statements(r, allowed, uniq)) body.insert(body.begin() + r.below(body.size() + 1), t + "\n");
    // a table whose element expression is evaluated once per element and fails on a later evaluation: the objects already built belong to nobody else
    if (r.chance(0.4)) { int id = ++p.fault_points; std::string st = "begin\n  " + std::string(r.chance(0.5) ? "ot = tab(3, vf(v.pt(" + std::to_string(id) + ", 25)));" : "ot3 = tab(2, tab(2, vf(v.pt(" + std::to_string(id) + ", 26))));") + "\nexception\nwhen others then\n  print \"tab failed\";\nend;\n"; body.insert(body.begin() + r.below(body.size() + 1), st); plan["tab_fault_point"] = id; }
    // a receiver that changes module after the call was compiled: the method of one module must never run on the object of another (last statement: the error is not catchable)
    if (r.chance(0.25)) { switch (r.below(3)) {
      case 0: body.push_back("mx = oa;\nfor mi in 1 to 2 loop\n  print mx.tag();\n  mx = og;\nend loop;\n"); break;
      case 1: body.push_back("print otag(oa);\nprint otag(og);\n"); break;
      default: body.push_back("mt = tab(1, oa);\nfor mi in 1 to 2 loop\n  forall me in mt loop\n    print me.get();\n  end loop;\n  mt = tab(1, og);\nend loop;\n"); break; } }
    std::string b; for (auto& s : body) b += s;
    plan["setup"] = enc(setup); plan["text"] = enc(b); plan["allowed_args"] = allowed;
    Rng fr(subseed(runseed(vseed, runno), "fault"));
    json faults = json::array();
    if (p.fault_points > 0 && fr.chance(0.5)) {
      static const struct { int code; const char* arg; const char* kind; } K[] = {{21, "", "rt_catchable"}, {23, "", "rt_catchable"}, {1, "MYERR", "rt_catchable"}, {22, "7", "rt_fatal"}, {25, "integer", "rt_fatal"}};
      int nf = (int)fr.range(1, 2);
      if (plan.contains("tab_fault_point") && fr.chance(0.5)) { auto& f = K[fr.below(3)]; faults.push_back(json{{"point", plan["tab_fault_point"]}, {"visit", fr.range(2, 3)}, {"code", f.code}, {"arg", f.arg}, {"kind", f.kind}}); }
      for (int i = 0; i < nf; ++i) { auto& f = K[fr.below(5)]; faults.push_back(json{{"point", fr.range(1, p.fault_points)}, {"visit", fr.range(1, 3)}, {"code", f.code}, {"arg", f.arg}, {"kind", f.kind}}); }
    }
    plan["faults"] = faults;
    plan["cancel_at"] = fr.chance(0.2) ? fr.range(1, 40) : 0;
    // host history
    static const char* OPS[] = {"run", "run", "clone", "run_clone", "purge", "free_clone", "free_orig", "run_clone", "clone_of_clone", "redefine", "redefine"};
    json ops = json::array({"run"}); int n = (int)fr.range(0, 6);
    for (int i = 0; i < n; ++i) ops.push_back(OPS[fr.below(11)]);
    plan["ops"] = ops;
    return plan;
  }

  ExecResult execute(const json& plan) override {
    ExecResult res; EventLog ev;
    VfHost& host = VfHost::get(); host.reset();
    auto fail = [&](const std::string& cls, const std::string& msg) { if (res.vclass.empty()) { res.vclass = cls; res.message = msg; } };
    std::vector<FaultSpec> fs;
    for (auto& f : plan.value("faults", json::array())) { FaultSpec s; s.task = -1; s.point = f.value("point", 0L); s.visit = f.value("visit", 1L); s.code = f.value("code", 21); s.arg = f.value("arg", ""); s.kind = f.value("kind", "rt"); fs.push_back(s); }
    host.arm(fs);
    std::set<std::string> allowed; for (auto& a : plan.value("allowed_args", json::array())) allowed.insert(a.get<std::string>());
    const std::string setup = dec(plan.value("setup", "")), body = dec(plan.value("text", ""));
    const long cancel_at = plan.value("cancel_at", 0L);

    Capture capO; bloc::Context* orig = new bloc::Context(capO.fd(), capO.fd()); orig->trusted(true);
    std::vector<std::pair<bloc::Context*, std::unique_ptr<Capture>>> clones;
    bloc::Executable *se = nullptr, *be = nullptr;
    { Outcome o = parse_text(*orig, setup, se); if (o.ok()) o = run_exe(se); if (o.ok()) o = parse_text(*orig, body, be);
      if (!o.ok()) { ++res.probes["program_not_usable"]; ev.add("setup:" + o.str() + o.text); delete se; delete be; delete orig; bloc_deinit_plugins(); res.trace_hash = ev.hash(); return res; } }
    bool orig_usable = true;   // false after purge (documented: executables built with it no longer work there)

    DumpOpts dop; dop.flags = false; dop.symtype = false;
    auto check_refs = [&](const std::string& when) {
      // "no earlier": nothing reachable from a live context may be destroyed
      std::vector<bloc::Context*> live; if (orig) live.push_back(orig); for (auto& c : clones) if (c.first) live.push_back(c.first);
      for (auto c : live) { std::string d = dump_context(*c, dop); size_t p = d.find("!DEAD"); if (p != std::string::npos) { size_t b = d.rfind('\n', p); fail("C17/referenced-object-destroyed", when + ": " + printable(d.substr(b == std::string::npos ? 0 : b + 1, p - (b == std::string::npos ? 0 : b + 1) + 5), 200)); } }
      for (auto& o : host.objects) { if (o.destroyed > 1 || o.destroyed_dead) fail("C17/object-destroyed-twice", when + ": object #" + std::to_string(o.oid) + " destroyed " + std::to_string(o.destroyed) + " times"); if (o.methods_dead) fail("C17/method-on-dead-or-foreign-object", when + ": object #" + std::to_string(o.oid)); }
    };

    auto run_in = [&](bloc::Context& c, const std::string& who) {
      c.returnCondition(false);
      StepGuard g(20000); long n = 0;
      g.extra = [&](bloc::Context& cx, const bloc::Statement*) {
        ++n;
        if (cancel_at > 0 && n == cancel_at) { bloc_break(reinterpret_cast<bloc_context*>(&c)); ++res.faults["cancel"]; }
        if (&cx == &c && cx.verifExecDepth() == 0 && cx.verifControlDepth() == 0) check_refs(who + " statement boundary");
      };
      Outcome o = run_exe(c, be);
      c.returnCondition(false);
      delete c.dropReturned();
      ev.add(who + ":" + o.str());
      if (o.kind == Outcome::FOREIGN) fail("C17/foreign-exception", o.text);
      if (o.kind == Outcome::RUNTIME_ERROR) ++res.probes["run_ended_by_error"];
      res.steps += g.steps;
      check_refs(who + " after run");
    };

    int lifecycle = 0; std::vector<bloc::Executable*> extra_exes;
    for (auto& opj : plan.value("ops", json::array())) {
      std::string op = opj.get<std::string>();
      ev.add("op:" + op);
      if (op == "run") { if (orig && orig_usable) run_in(*orig, "orig"); }
      else if (op == "clone") { if (orig && orig_usable && clones.size() < 3) { std::unique_ptr<Capture> cap(new Capture()); bloc::Context* c = orig->clone(cap->fd(), cap->fd()); clones.emplace_back(c, std::move(cap)); ++lifecycle; ++res.faults["clone"]; } }
      else if (op == "clone_of_clone") { bloc::Context* src = nullptr; for (auto& c : clones) if (c.first) src = c.first; if (src && clones.size() < 3) { std::unique_ptr<Capture> cap(new Capture()); bloc::Context* c = src->clone(cap->fd(), cap->fd()); clones.emplace_back(c, std::move(cap)); ++lifecycle; ++res.faults["clone_of_clone"]; } }
      else if (op == "run_clone") { for (auto& c : clones) if (c.first) { run_in(*c.first, "clone"); break; } }
      else if (op == "redefine") { // the functions that keep objects in their locals are declared again (accepted): the runtime contexts of the replaced declarations, and the objects they hold, are released
        if (orig && orig_usable) { bloc::Executable* re = nullptr; static long nth = 0; ++nth;
          Outcome o = parse_text(*orig, "function omake(t) return vf is\nbegin\n  loc = vf(t);\n  tmp = vf(t + 1);\n  tm2 = vf(t + 2);\n  return loc;\nend;\nfunction okeep(o:vf) return integer is\nbegin\n  held = o;\n  hel2 = o;\n  return 2;\nend;\n", re);
          if (o.ok()) { Outcome ro = run_exe(*orig, re); if (ro.kind == Outcome::FOREIGN) fail("C17/foreign-exception", ro.text); extra_exes.push_back(re); ++lifecycle; ++res.faults["redefine_functions"]; } else { delete re; ++res.probes["redefinition_rejected"]; } } }
      else if (op == "purge") { if (orig && orig_usable) { orig->purge(); orig_usable = false; ++lifecycle; ++res.faults["purge"]; } }
      else if (op == "free_clone") { for (auto& c : clones) if (c.first) { delete c.first; c.first = nullptr; ++lifecycle; ++res.faults["free_clone"]; break; } }
      else if (op == "free_orig") { if (orig) { delete orig; orig = nullptr; orig_usable = false; ++lifecycle; ++res.faults["free_orig"]; } }
      check_refs("after " + op);
    }
    // scripted expectations: "EXPECT:<wanted>:<printed>" (only programs that ran to the end of such a statement print them)
    { std::vector<std::string> outs; if (orig && orig->ctxout()) fflush(orig->ctxout()); outs.push_back(capO.read_all()); for (auto& c : clones) { if (c.first && c.first->ctxout()) fflush(c.first->ctxout()); if (c.second) outs.push_back(c.second->read_all()); }
      for (auto& o : outs) { size_t p = 0; while ((p = o.find("EXPECT:", p)) != std::string::npos) { size_t a = p + 7, b = o.find(':', a); if (b == std::string::npos) break; size_t e = o.find_first_of(" \n", b + 1); std::string want = o.substr(a, b - a), got = o.substr(b + 1, e == std::string::npos ? std::string::npos : e - b - 1); ++res.probes["scripted_expectations"];
          if (want != got) fail("C17/reference-lost-or-duplicated", "the program printed '" + got + "' where '" + want + "' was expected (" + printable(o.substr(p, 60), 80) + ")"); p = b + 1; } } }
    // release everything: "no later"
    for (auto& c : clones) { delete c.first; c.first = nullptr; }
    delete be; delete se; for (auto e : extra_exes) delete e;
    if (orig) delete orig;
    long created = (long)host.objects.size();
    for (auto& o : host.objects) if (o.destroyed != 1) fail(o.destroyed == 0 ? "C17/object-never-destroyed" : "C17/object-destroyed-twice", "object #" + std::to_string(o.oid) + " (tag " + std::to_string(o.tag) + ") destroyed " + std::to_string(o.destroyed) + " times after everything was released");
    // argument fidelity + event trace
    for (auto& e : host.events) {
      if (e.kind == 'M' && (e.b == 11 /*sum*/ || e.b == 10 /*echo*/) && !allowed.empty()) { if ((e.b == 11 && atol(e.s.c_str()) >= 70000) || (e.b == 10 && e.s.compare(0, 2, "\"w") == 0)) { if (!allowed.count(e.s)) fail("C17/method-arguments-differ", "plugin saw (" + e.s + ")"); else ++res.probes["argument_lists_checked"]; } }
      if (e.kind == 'C' || e.kind == 'D' || e.kind == 'F') ev.add(std::string(1, e.kind) + std::to_string(e.a));
    }
    res.probes["objects_created"] = created;
    if (host.fired > 0) { res.faulty = true; for (auto& kv : host.fired_by_kind) res.faults[kv.first] += kv.second; }
    if (created >= 2 && (host.fired > 0 || res.probes.count("run_ended_by_error") || lifecycle > 0 || res.faults.count("cancel"))) res.nontrivial = true;
    bloc_deinit_plugins();
    res.trace_hash = ev.hash();
    return res;
  }

  std::vector<json> shrink(const json& plan) override {
    std::vector<json> v;
    json f = plan.value("faults", json::array());
    for (size_t i = 0; i < f.size(); ++i) { json p = plan; p["faults"].erase(p["faults"].begin() + i); v.push_back(p); }
    if (plan.value("cancel_at", 0L) > 0) { json p = plan; p["cancel_at"] = 0; v.push_back(p); }
    json ops = plan.value("ops", json::array());
    for (size_t i = 0; i < ops.size(); ++i) { json p = plan; p["ops"].erase(p["ops"].begin() + i); v.push_back(p); }
    auto drop_lines = [&](const std::string& text, std::vector<std::string>& out) {
      std::vector<std::string> lines; size_t b = 0; while (b < text.size()) { size_t e = text.find('\n', b); if (e == std::string::npos) e = text.size() - 1; lines.push_back(text.substr(b, e - b + 1)); b = e + 1; }
      for (size_t piece = lines.size() / 2; piece >= 1; piece /= 2) { for (size_t s = 0; s + piece <= lines.size() && out.size() < 150; s += piece) { std::string t; for (size_t i = 0; i < lines.size(); ++i) if (i < s || i >= s + piece) t += lines[i]; out.push_back(t); } if (piece == 1) break; }
    };
    { std::vector<std::string> c; drop_lines(dec(plan.value("text", "")), c); for (auto& t : c) { json p = plan; p["text"] = enc(t); p.erase("ast"); v.push_back(p); } }
    { std::vector<std::string> c; drop_lines(dec(plan.value("setup", "")), c); for (auto& t : c) { json p = plan; p["setup"] = enc(t); v.push_back(p); } }
    return v;
  }
};

static ProfileRegistrar reg(new C17());

} // namespace
