// C16 - an untrusted context can never obtain an object of a module it was not granted.
// World: process-wide module registry and grant list (singletons) shared by a host actor, a trusted
// context T, untrusted contexts U1/U2 and clones of them; modules vf and vg (the verification plugin
// under two names) and the real csv. The plan is the interleaving of the actors' steps.
// Oracle: 3-variable reference model (granted set, loaded set, trusted flag per context) for every
// compile outcome + creation monitor inside the plugin.
#include "core/profile.h"
#include "core/util.h"
#include "oracle/world.h"
#include "oracle/stepguard.h"
#include "seams/capture.h"
#include "seams/vfhost.h"
#include <blocc/bloc_capi.h>
#include <blocc/plugin_manager.h>
#include <map>
#include <set>
#include <memory>
#include <fstream>

using namespace sim;

namespace {

struct Ctx {
  std::unique_ptr<Capture> cap; bloc::Context* ctx = nullptr; bool trusted = false;
  std::vector<bloc::Executable*> exes;
  std::set<std::string> legit;          // modules for which a constructor was legitimately compiled in this family
  std::set<std::string> funcs;          // user functions defined (name -> module they construct) kept in fmod
  std::map<std::string, std::string> fmod;
};

// a long-lived statement-at-a-time parser of one context (what an interactive host keeps open): it is fed exactly one complete statement per step
struct OneShotReader : bloc::Parser::StreamReader {
  std::string pending;
  int read(bloc::Parser*, char* buf, int max_size) override { if (pending.empty()) return 0; int n = (int)std::min<size_t>(pending.size(), (size_t)max_size); memcpy(buf, pending.data(), (size_t)n); pending.erase(0, (size_t)n); return n; }
};
struct Session { OneShotReader rd; bloc::Parser* p = nullptr; std::vector<const bloc::Statement*> kept; ~Session() { delete p; for (auto s : kept) delete s; } };

static const char* MODS[] = {"vf", "vg", "csv"};

struct C16 : Profile {
  const char* id() const override { return "C16"; }
  long budget(const std::string& tier) const override { return tier == "thorough" ? 120000 : 20000; }
  bool exhaustive(const std::string&) const override { return false; }
  std::string rule() const override {
    return "plan = history of up to 14 steps by the actors Host (grant name / clear grants / set trusted), T (trusted), U1, U2 (untrusted) and clones: import by name, "
           "import by path, include, constructor at top level / inside a function body / after a typed declaration / in other letter case, call of a function "
           "compiled earlier, clone, re-run of an executable compiled earlier in a clone. The first 288 run numbers enumerate the finite core "
           "{trusted,untrusted} x {granted, never, granted-then-cleared, granted other module} x {loaded by T before, loaded by itself, not loaded} x {top level, function body, "
           "clone, typed declaration} x {vf, vg} completely; the rest is seeded. Oracle: each compile is accepted iff the model (granted set, loaded set, trusted flag) says so; "
           "the plugin's creation monitor flags any object created in an untrusted family that never legitimately compiled a constructor of that module. "
           "Non-trivial = at least one constructor compile in an untrusted context; distinct = distinct event-trace hash.";
  }
  json components() const override { return json{{"real", {"PluginManager (registry, grants)", "ComplexCTORExpression::parse permission test", "IMPORTStatement / INCLUDEStatement", "Context::clone / trusted flag", "bloc_unban_plugin / bloc_clear_plugin_permissions / bloc_deinit_plugins", "dlopen of the real module files"}}, {"stub", json::array()}}; }
  std::vector<std::string> assumptions() const override { return {"the host never stores an object into an untrusted context itself and never flips the trusted flag between compile and run of the same text", "bloc_deinit_plugins is called only after every context and executable is released (documented precondition)"}; }

  static json step(const std::string& actor, const std::string& op, const std::string& arg = "") { return json{{"a", actor}, {"op", op}, {"arg", arg}}; }

  // finite core
  json core_plan(uint64_t n) {
    json st = json::array();
    int mod = n % 2; n /= 2; int place = n % 4; n /= 4; int load = n % 3; n /= 3; int grant = n % 4; n /= 4; int trust = n % 2; n /= 2; int reorder = n % 3;
    std::string m = MODS[mod], other = MODS[1 - mod];
    std::string who = trust ? "T" : "U1";
    // loading
    if (load == 0) st.push_back(step(who == "T" ? "U2" : "T", "import", m));   // loaded by another context
    json grants = json::array();
    if (grant == 0) grants.push_back(step("H", "grant", m));
    if (grant == 2) { grants.push_back(step("H", "grant", m)); grants.push_back(step("H", "clear")); }
    if (grant == 3) grants.push_back(step("H", "grant", other));
    if (reorder == 0) for (auto& g : grants) st.push_back(g);
    if (load == 1) st.push_back(step(who, "import", m));
    if (reorder == 1) for (auto& g : grants) st.push_back(g);
    std::string target = who;
    if (place == 2) { st.push_back(step(who, "clone", "C1")); target = "C1"; }
    if (reorder == 2) for (auto& g : grants) st.push_back(g);
    switch (place) {
    case 0: st.push_back(step(target, "ctor_top", m)); break;
    case 1: st.push_back(step(target, "ctor_func", m)); st.push_back(step(target, "call_func", m)); break;
    case 2: st.push_back(step(target, "ctor_top", m)); break;
    default: st.push_back(step(target, "typed_decl", m)); st.push_back(step(target, "ctor_top", m)); break;
    }
    // revoke afterwards and use again what was compiled
    st.push_back(step("H", "clear"));
    st.push_back(step(target, "ctor_top", m));
    return st;
  }

  json generate(uint64_t vseed, uint64_t runno, const std::string&) override {
    json plan; plan["property"] = "C16";
    if (runno < 576) { plan["steps"] = core_plan(runno); plan["core"] = true; return plan; }
    Rng r(runseed(vseed, runno));
    json st = json::array(); int n = (int)r.range(4, 14);
    std::vector<std::string> ctxs = {"T", "U1", "U2"}; int nclone = 0;
    for (int i = 0; i < n; ++i) {
      std::string m = MODS[r.weighted({5, 3, 1})];
      switch (r.weighted({3, 1.5, 0.7, 4, 1.2, 0.8, 5, 2, 2, 1, 1, 1.5, 1, 0.8, 1.2, 2.5, 1.2})) {
      case 16: { std::string c0 = r.pick(ctxs); st.push_back(step(c0, "sess_open", m)); st.push_back(step("H", r.chance(0.5) ? "trust" : "untrust", c0)); if (r.chance(0.4)) st.push_back(step("H", r.chance(0.5) ? "grant" : "clear", m)); st.push_back(step(c0, r.pick(std::vector<std::string>{"sess_include", "sess_import_path", "sess_ctor"}), m)); break; }   // the parser outlives a change of the permissions
      case 15: st.push_back(step(r.pick(ctxs), r.pick(std::vector<std::string>{"sess_open", "sess_include", "sess_import_path", "sess_ctor", "sess_include"}), m)); break;
      case 13: st.push_back(step("H", "purge", r.pick(ctxs))); break;
      case 14: st.push_back(step(r.pick(ctxs), "import_path_expr", m)); break;
      case 0: st.push_back(step("H", "grant", m)); break;
      case 1: st.push_back(step("H", "clear")); break;
      case 2: st.push_back(step("H", r.chance(0.5) ? "trust" : "untrust", r.pick(ctxs))); break;
      case 3: st.push_back(step(r.pick(ctxs), "import", m)); break;
      case 4: st.push_back(step(r.pick(ctxs), "import_path", m)); break;
      case 5: st.push_back(step(r.pick(ctxs), "include")); break;
      case 6: st.push_back(step(r.pick(ctxs), "ctor_top", m)); break;
      case 7: st.push_back(step(r.pick(ctxs), "ctor_func", m)); break;
      case 8: st.push_back(step(r.pick(ctxs), "call_func", m)); break;
      case 9: st.push_back(step(r.pick(ctxs), "typed_decl", m)); break;
      case 10: st.push_back(step(r.pick(ctxs), "ctor_case", m)); break;
      case 11: if (nclone < 3) { std::string c = "C" + std::to_string(++nclone); st.push_back(step(r.pick(ctxs), "clone", c)); ctxs.push_back(c); } break;
      default: st.push_back(step(r.pick(ctxs), "call_func", m)); break;
      }
    }
    plan["steps"] = st;
    return plan;
  }

  ExecResult execute(const json& plan) override {
    ExecResult res; EventLog ev;
    VfHost& host = VfHost::get(); host.reset();
    auto fail = [&](const std::string& cls, const std::string& msg) { if (res.vclass.empty()) { res.vclass = cls; res.message = msg; } };
    // model
    std::set<std::string> G, L;
    std::map<std::string, Ctx> cx;
    auto mk = [&](const std::string& name, bool trusted) { Ctx& c = cx[name]; c.cap.reset(new Capture()); c.ctx = new bloc::Context(c.cap->fd(), c.cap->fd()); c.ctx->trusted(trusted); c.trusted = trusted; };
    mk("T", true); mk("U1", false); mk("U2", false);
    std::map<const void*, std::string> root_name;
    for (auto& kv : cx) root_name[kv.second.ctx] = kv.first;
    // creation monitor
    host.on_create = [&](int module, void* vctx, long oid) {
      bloc::Context* c = static_cast<bloc::Context*>(vctx);
      const bloc::Context* root = c->verifRoot();
      auto it = root_name.find(root);
      std::string mname = module == 1 ? "vf" : "vg";
      if (it == root_name.end()) { fail("M/harness-unknown-root", "object created in a context the harness does not know"); return; }
      Ctx& f = cx[it->second];
      ++res.probes["objects_created"];
      if (!f.trusted && !c->trusted()) ++res.probes["objects_created_untrusted"];
      if (!f.legit.count(mname)) fail("C16/object-created-without-grant", "object #" + std::to_string(oid) + " of module " + mname + " created in context " + it->second + " which never compiled a constructor of it while trusted or granted");
    };
    const std::string incfile = bindir() + "/scratch-c16-include.b";
    { std::ofstream f(incfile); f << "inc9 = 1;\n"; }

    auto compile_run = [&](const std::string& who, const std::string& text, bool expect_ok, const std::string& what, bool run = true) {
      Ctx& c = cx[who];
      bloc::Executable* exe = nullptr;
      Outcome o = parse_text(*c.ctx, text, exe);
      ev.add(who + ":" + what + ":" + (o.ok() ? "accepted" : "rejected"));
      if (o.kind == Outcome::FOREIGN) fail("C16/foreign-exception", o.text);
      if (o.ok() != expect_ok) fail(expect_ok ? "C16/compile-refused-although-permitted" : "C16/compile-accepted-although-restricted", who + " (" + (c.trusted ? "trusted" : "untrusted") + "): " + what + " '" + printable(text, 80) + "' -> " + o.str() + " " + o.text + "; model: granted={" + join(G) + "} loaded={" + join(L) + "}");
      if (o.ok()) {
        c.exes.push_back(exe);
        if (run) { c.ctx->returnCondition(false); StepGuard g(2000); Outcome ro = run_exe(exe); ev.add("run:" + ro.str()); if (ro.kind == Outcome::FOREIGN) fail("C16/foreign-exception", ro.text); }
      }
      return o.ok();
    };

    std::map<std::string, std::unique_ptr<Session>> sessions; std::string last_refusal;
    // one statement through the context's long-lived parser; returns 1 accepted and run, 0 refused by the compiler, -1 not applicable
    auto session_feed = [&](const std::string& who, const std::string& text, const std::string& what) -> int {
      Ctx& c = cx[who]; auto& sp = sessions[who]; if (!sp) sp.reset(new Session());
      if (!sp->p) { sp->p = bloc::Parser::createInteractiveParser(*c.ctx, sp->rd); if (!sp->p) return -1; ++res.probes["session_parsers_made"]; } else ++res.probes["session_parser_reused"];
      sp->rd.pending = text; const bloc::Statement* stmt = nullptr; bool ok = false;
      try { stmt = sp->p->parseStatement(); if (!stmt && !sp->rd.pending.empty()) stmt = sp->p->parseStatement();   /* the line end left over by the previous statement is reported first */ ok = stmt != nullptr; }
      catch (bloc::ParseError& pe) { ev.add(std::string("session refusal: ") + pe.what()); last_refusal = pe.what(); delete sp->p; sp->p = nullptr; sp->rd.pending.clear(); }   // a fresh parser after a refusal
      catch (std::exception& e) { fail("C16/foreign-exception", std::string(typeid(e).name()) + ": " + e.what()); delete sp->p; sp->p = nullptr; return -1; }
      ev.add(who + ":session " + what + ":" + (ok ? "accepted" : "rejected"));
      if (ok) { sp->kept.push_back(stmt); const bloc::Statement* n = stmt; StepGuard g(2000); try { while (n) n = n->execute(*c.ctx); } catch (bloc::RuntimeError&) { c.ctx->onRuntimeError(); } catch (std::exception& e) { fail("C16/foreign-exception", std::string(typeid(e).name()) + ": " + e.what()); } }
      return ok ? 1 : 0;
    };
    int ctor_untrusted = 0;
    for (auto& s : plan.value("steps", json::array())) {
      std::string a = s.value("a", ""), op = s.value("op", ""), arg = s.value("arg", "");
      if (a != "H" && !cx.count(a)) continue;
      ev.add(a + "." + op + "(" + arg + ")");
      if (a == "H") {
        if (op == "grant") { bloc_unban_plugin(arg.c_str()); G.insert(arg); ++res.faults["grant"]; }
        else if (op == "clear") { bloc_clear_plugin_permissions(); G.clear(); ++res.faults["clear_grants"]; }
        else if (op == "purge" && cx.count(arg)) { cx[arg].ctx->purge(); cx[arg].fmod.clear(); ++res.faults["purge_context"]; }   // forgets variables and functions, never the trust the host gave
        else if ((op == "trust" || op == "untrust") && cx.count(arg)) { cx[arg].ctx->trusted(op == "trust"); cx[arg].trusted = (op == "trust"); ++res.faults["flip_trust"]; }
        continue;
      }
      Ctx& c = cx[a];
      auto permitted = [&](const std::string& m) { return L.count(m) && (c.trusted || G.count(m)); };
      if (op == "import") {
        bool ok = compile_run(a, "import " + arg + ";\n", true, "import by name");
        if (ok) L.insert(arg);
      } else if (op == "import_path") {
        std::string path = bindir() + "/libbloc_" + arg + ".so.2.9";
        bool ok = compile_run(a, "import \"" + path + "\";\n", c.trusted, "import by path");
        if (ok) L.insert(arg);
        if (!c.trusted) ++res.probes["path_import_in_untrusted"];
      } else if (op == "import_path_expr") {
        // other spellings of a path: whatever the parser makes of them, an untrusted context must never get a library mapped
        std::string path = bindir() + "/libbloc_" + arg + ".so.2.9"; static const char* FORM[] = {"import str(\"%s\");\n", "import (\"%s\");\n", "import \"\" + \"%s\";\n", "import lower(\"%s\");\n", "import trim(\" %s \");\n", "import substr(\"%s\", 0);\n"};
        char buf[1024]; snprintf(buf, sizeof buf, FORM[fnv1a(path + a) % 6], path.c_str());
        Ctx& cc = cx[a]; bloc::Executable* exe = nullptr; Outcome o = parse_text(*cc.ctx, buf, exe);
        ev.add(a + ":import by path expression:" + (o.ok() ? "accepted" : "rejected"));
        if (o.kind == Outcome::FOREIGN) fail("C16/foreign-exception", o.text);
        if (o.ok() && !cc.trusted) fail("C16/compile-accepted-although-restricted", a + " (untrusted): import by path expression '" + printable(buf, 100) + "'");
        if (o.ok()) { cc.exes.push_back(exe); L.insert(arg); }
        if (!cc.trusted) ++res.probes["path_expression_import_in_untrusted"];
      } else if (op == "sess_open") {
        session_feed(a, "sq9 = 1;\n", "plain statement");
      } else if (op == "sess_include" || op == "sess_import_path" || op == "sess_ctor") {
        // the permissions are those of the context at the moment of the statement, however long ago the parser was made
        if (op == "sess_ctor" && arg == "csv") continue;
        std::string text = op == "sess_include" ? "include \"" + incfile + "\";\n" : op == "sess_import_path" ? "import \"" + bindir() + "/libbloc_" + arg + ".so.2.9\";\n" : "so_" + arg + " = " + arg + "();\n";
        bool expect = op == "sess_ctor" ? permitted(arg) : c.trusted;
        if (op == "sess_ctor" && expect) c.legit.insert(arg);
        int got = session_feed(a, text, op);
        if (got >= 0 && (got == 1) != expect) fail(expect ? "C16/compile-refused-although-permitted" : "C16/compile-accepted-although-restricted", a + " (" + (c.trusted ? "trusted" : "untrusted") + "), long-lived parser: " + op + " '" + printable(text, 80) + "' (" + last_refusal + "); model: granted={" + join(G) + "} loaded={" + join(L) + "}");
        if (got == 1 && op == "sess_import_path") L.insert(arg);
      } else if (op == "include") {
        compile_run(a, "include \"" + incfile + "\";\n", c.trusted, "include");
        if (!c.trusted) ++res.probes["include_in_untrusted"];
      } else if (op == "ctor_top") {
        if (arg == "csv") continue;   // csv needs arguments; covered by vf/vg
        bool p = permitted(arg);
        if (!c.trusted) { ++ctor_untrusted; res.nontrivial = true; ++res.probes[std::string("ctor_untrusted_") + (p ? "permitted" : "restricted")]; }
        if (L.count(arg) && p) c.legit.insert(arg);
        compile_run(a, "ob_" + arg + " = " + arg + "();\nprint ob_" + arg + ".tag();\n", p, "constructor at top level");
      } else if (op == "ctor_func") {
        if (arg == "csv") continue;
        bool p = permitted(arg);
        if (!c.trusted) { ++ctor_untrusted; res.nontrivial = true; ++res.probes[std::string("ctor_in_function_untrusted_") + (p ? "permitted" : "restricted")]; }
        if (p) { c.legit.insert(arg); c.fmod["mk_" + arg] = arg; }
        compile_run(a, "function mk_" + arg + "() return " + arg + " is\nbegin\n  return " + arg + "(7);\nend;\n", p, "constructor inside a function body");
      } else if (op == "call_func") {
        bool defined = c.fmod.count("mk_" + arg) > 0;
        compile_run(a, "fo_" + arg + " = mk_" + arg + "();\nprint fo_" + arg + ".tag();\n", defined, "call of a function that constructs");
      } else if (op == "typed_decl") {
        if (arg == "csv") continue;
        // a typed null declaration creates no object and needs no grant, only a loaded module
        compile_run(a, "td_" + arg + ":" + arg + ";\nprint isnull(td_" + arg + ");\n", L.count(arg) > 0, "typed declaration");
      } else if (op == "ctor_case") {
        if (arg == "csv") continue;
        std::string up = arg; up[0] = (char)toupper(up[0]);
        std::string all = arg; for (auto& ch : all) ch = (char)toupper(ch);
        compile_run(a, "oc1 = " + up + "();\n", false, "constructor in other letter case");
        compile_run(a, "oc2 = " + all + "();\n", false, "constructor in upper case");
      } else if (op == "clone") {
        if (cx.count(arg)) continue;
        Ctx& n = cx[arg]; n.cap.reset(new Capture()); n.ctx = c.ctx->clone(n.cap->fd(), n.cap->fd()); n.trusted = c.trusted; n.legit = c.legit; n.fmod = c.fmod;
        root_name[n.ctx] = arg; ++res.probes["clones"];
        if (n.ctx->trusted() != c.trusted) fail("C16/clone-changes-trust", "clone of " + a + " has trusted=" + std::to_string(n.ctx->trusted()));
      }
      (void)ctor_untrusted;
    }
    // release everything, then the registry
    sessions.clear();
    for (auto& kv : cx) { for (auto e : kv.second.exes) delete e; kv.second.exes.clear(); }
    for (auto& kv : cx) { delete kv.second.ctx; kv.second.ctx = nullptr; }
    for (auto& o : host.objects) if (o.destroyed != 1) fail("C16/object-not-destroyed-exactly-once", "object #" + std::to_string(o.oid));
    bloc_clear_plugin_permissions();
    bloc_deinit_plugins();
    host.on_create = nullptr;
    res.faulty = res.faults.size() > 0;
    res.trace_hash = ev.hash();
    return res;
  }

  static std::string join(const std::set<std::string>& s) { std::string o; for (auto& x : s) { if (!o.empty()) o += ","; o += x; } return o; }

  std::vector<json> shrink(const json& plan) override {
    std::vector<json> v; json st = plan.value("steps", json::array());
    for (size_t i = 0; i < st.size(); ++i) { json p = plan; p["steps"].erase(p["steps"].begin() + i); p.erase("core"); v.push_back(p); }
    return v;
  }
};

static ProfileRegistrar reg(new C16());

} // namespace
