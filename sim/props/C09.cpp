// C09 - tables stay uniform, tuples keep their structure, indexing is range-checked.
#include "props/rbase.h"
#include "props/astutil.h"

using namespace sim;
using namespace sim::ast;

namespace {

struct C09 : RBase {
  const char* id() const override { return "C09"; }
  long budget(const std::string& tier) const override { return tier == "thorough" ? 300000 : 12000; }
  bool per_step_checks() const override { return true; }
  std::string rule() const override {
    return "plan = history of up to 30 container operations, each compiled and run as its own unit in one context (an operation that fails does not end the history): at, put, insert, "
           "delete, concat, count on a table of integers, a table of strings and a string; set@ / @k / count on a tuple; positions from {-1, 0, 1, n-1, n, n+1, 2^32+1, 2^63-1, null}; "
           "arguments from {matching, decimal into an integer table, typed null of the element type, typed null of the mixable type, untyped null}; operations whose static types "
           "mismatch (string into an integer table, set@ with another type, forall that mutates the traversed table) are separate units that must be rejected at compile time and "
           "change nothing; 30 % of the histories are model-free: put / insert / concat through untyped function parameters, assignments through forall iterators and set@ over nested tables, "
           "tables of tuples and tuples holding tables, with values of every other shape, checked by the uniformity invariant alone; forall traversals with mutation attempts through a copy and through a function; fault points in argument position (the receiver is already evaluated when "
           "the argument fails); bloc_break. Oracle: vector/tuple reference model operation by operation (printed size and elements, error class INDEX_RANGE / OUT_OF_RANGE / parse "
           "error, final deep store) and, at every statement step, every element carries exactly its table's element type and every tuple its declaration. Non-trivial = an "
           "operation was rejected or failed; distinct = distinct event-trace hash.";
  }
  GenKnobs knobs(Rng& r) const override {
    GenKnobs k; k.exceptions = true; k.fault_points = true; k.fault_point_rate = 0.1; k.natural_errors = false; k.natural_error_rate = 0;
    k.max_depth = 2; k.top_statements = (int)r.range(1, 3); k.functions = 0; k.objects = false; k.returns = false; k.loop_max_iter = 3;
    return k;
  }
  bool with_probe() const override { return false; }
  double cancel_rate() const override { return 0.05; }
  void extra_statements(Rng&, json& a, GenProgram&) const override {
    json& B = a["body"];
    a["funcs"].push_back(func("grow", {{"t", "tabint"}}, "int", {doit(mth("concat", var("t", "tabint"), {ilit(1)}, "tabint")), ret(mth("count", var("t", "tabint"), {}))}));
    B.push_back(let("ca", tab(ilit(3), ilit(7)))); B.push_back(let("cs", tab(ilit(2), slit("s"), "tabstr"))); B.push_back(let("cu", tup({ilit(1), slit("x"), blit(true)}))); B.push_back(let("cz", slit("hello")));
  }
  std::vector<std::vector<json>> extra_units(Rng& r, const json&, GenProgram& p) const override {
    std::vector<std::vector<json>> U; int pid = p.fault_points;
    if (r.chance(0.3)) {
      // model-free histories over nested tables and tables of tuples (outside the reference interpreter's subset): every operation runs as its own unit, may be refused by the
      // compiler, fail at run time or succeed; the oracle is the per-step uniformity invariant (every element has exactly its table's element type, every tuple its declaration)
      auto raw = [](const std::string& t) { return json{{"k", "rawstmt"}, {"v", t}}; };
      for (const char* st : {"cn = tab(2, tab(2, 1));", "ct = tab(2, tup(1, \"x\"));", "cd = tab(2, 1.5);", "cq = tab(2, tab(1, tup(1, 2)));", "ci = tab(2, 1);", "cw = tup(1, \"x\", 2.5);",
                             "function oput(t, p, v) return table is begin t.put(p, v); return t; end;", "function oins(t, p, v) return table is begin t.insert(p, v); return t; end;",
                             "function ocat(t, v) return table is begin t.concat(v); return t; end;", "function oset(u, v) return tuple is begin u.set@1(v); return u; end;",
                             "function oset3(u, v) return tuple is begin u.set@3(v); return u; end;",
                             // a refused operation leaves the container as it was: the size seen after a concat / put / insert that was refused is the size before it
                             "function osize(t, v, w) return integer is begin begin if w == 0 then t.concat(v); elsif w == 1 then t.put(0, v); else t.insert(0, v); end if; return (-1); exception when others then return t.count(); end; return (-2); end;"}) U.push_back({raw(st)});
      static const char* T[] = {"cn", "ct", "cd", "cq", "ci"};
      static const char* V[] = {"1.5", "2", "null", "\"s\"", "tup(1, \"x\")", "tup(\"a\", 1)", "tup(7, \"x\", true)", "tup(2, \"y\")", "tup(3, 4)", "tab(1, 1)", "tab(1, 1.5)", "tab(1, tab(1, 1))", "int()", "num()", "tab(2, 5)",
                                "tab(1, tup(3, \"z\"))", "tab(1, tup(\"z\", 3))", "tab(1, tup(5, 6))", "tab(1, tab(1, tup(5, 6)))", "true", "tab()", "tup()", "str()"};
      static const char* P[] = {"0", "1", "2", "(-1)"};
      int n = (int)r.range(8, 30);
      for (int i = 0; i < n; ++i) {
        std::string t = T[r.below(5)], v = V[r.below(sizeof(V) / sizeof(*V))], pos = P[r.below(4)], st;
        switch (r.below(12)) {
        case 0: case 1: st = t + " = oput(" + t + ", " + pos + ", " + v + ");"; break;
        case 2: case 3: st = t + " = oins(" + t + ", " + pos + ", " + v + ");"; break;
        case 4: case 5: st = t + " = ocat(" + t + ", " + v + ");"; break;
        case 6: st = t + "." + std::string(r.chance(0.5) ? "put(" + pos + ", " : r.chance(0.5) ? "insert(" + pos + ", " : "concat(") + v + ");"; break;
        case 7: case 8: st = "forall e in " + t + " loop e = " + v + "; break; end loop;"; break;
        case 9: st = "forall rw in " + std::string(r.chance(0.5) ? "cn" : "cq") + " loop forall c in rw loop c = " + v + "; break; end loop; break; end loop;"; break;
        case 10: st = "cw = " + std::string(r.chance(0.5) ? "oset(cw, " : "oset3(cw, ") + v + ");"; break;
        default: st = "forall rw in " + std::string(r.chance(0.5) ? "cn" : "cq") + " loop rw = " + v + "; break; end loop;"; break;
        }
        if (r.chance(0.15)) { // a value that cannot be converted (out of the integer range, not a number): the refused operation must not have changed the size
          static const char* BAD[] = {"1.0e30", "(1.0e308 * 10.0)", "((1.0e308 * 10.0) - (1.0e308 * 10.0))", "(-1.0e30)"}; std::string key = "z" + std::to_string(i);
          U.push_back({raw("print \"SAME:" + key + ":\" ci.count();")}); st = "sz = osize(ci, " + std::string(BAD[r.below(4)]) + ", " + std::to_string(r.below(3)) + ");\nif sz >= 0 then print \"SAME:" + key + ":\" sz; end if;"; }
        if (r.chance(0.08)) { // a typed declaration of the iterator inside the loop resets the element; reading it afterwards must not change it
          static const char* TD[][2] = {{"ci", "integer"}, {"cd", "decimal"}, {"ci", "string"}, {"cn", "table"}, {"ct", "tuple"}};
          auto& td = TD[r.below(5)]; st = std::string("forall e in ") + td[0] + " loop e:" + td[1] + "; print isnull(e) isnull(e) typeof(e); end loop;"; }
        if (r.chance(0.08)) st = "forall $pe" + std::to_string(i) + " in " + t + " loop print 1; end loop;";   // a type-protected name as iterator: refused at run time, nothing may stay locked
        U.push_back({raw(st)});
      }
      U.push_back({raw("print cn.count() ct.count() cd.count() cq.count() ci.count() cw.count();")});
      return U;
    }
    const long long HUGE1 = 4294967297LL, HUGE2 = 9223372036854775807LL;
    bool null_position = false;
    auto position = [&](const char* tn, const char* tt) -> json {
      json cnt = mth("count", var(tn, tt), {});
      int c = (int)r.below(11); null_position = (c == 8);
      switch (c) {
      case 0: return json{{"k", "un"}, {"op", "-"}, {"a", ilit(1)}, {"t", "int"}};
      case 1: return ilit(0); case 2: return ilit(1);
      case 3: return bin("-", cnt, ilit(1)); case 4: return cnt; case 5: return bin("+", cnt, ilit(1));
      case 6: return ilit(HUGE1); case 7: return ilit(HUGE2); case 8: return nul("int");
      default: return ilit(r.range(0, 2));
      }
    };
    bool mixable = false;
    auto intarg = [&]() -> json {
      int c = (int)r.below(8); if (c == 1 || c == 3) mixable = true;
      switch (c) { case 0: return nul("int"); case 1: return nul("dec"); case 2: return json{{"k", "null"}, {"t", "undef"}}; case 3: return json{{"k", "dec"}, {"v", r.chance(0.5) ? 2.5 : -3.75}}; case 4: if (!null_position) { ++pid;   /* never two failing sub-expressions in one expression: their order is not defined by the manual */ return pt(pid, "pt", var("v", "obj"), ilit(r.range(10, 19)), "int"); } return ilit(3); default: return ilit(r.range(0, 99)); }
    };
    auto strarg = [&]() -> json { switch (r.below(5)) { case 0: return nul("str"); case 1: return json{{"k", "null"}, {"t", "undef"}}; default: return slit(std::string("w") + (char)('a' + r.below(5))); } };
    auto show = [&](std::vector<json>& u) {
      u.push_back(print({slit("ca#"), mth("count", var("ca", "tabint"), {}), slit(" cs#"), mth("count", var("cs", "tabstr"), {}), slit(" cu="), var("cu", "tup"), slit(" cz="), var("cz", "str")}));
      u.push_back(forall("zz", var("ca", "tabint"), {json{{"k", "put"}, {"es", arr({var("zz"), slit(",")})}}}));
      u.push_back(forall("zy", var("cs", "tabstr"), {json{{"k", "put"}, {"es", arr({var("zy", "str"), slit(";")})}}}));
      u.push_back(print({slit("|")}));
    };
    int n = (int)r.range(6, 30);
    for (int i = 0; i < n; ++i) {
      std::vector<json> u; mixable = false; null_position = false;
      switch (r.below(25)) {
      case 0: case 1: u.push_back(print({slit("at:"), mth("at", var("ca", "tabint"), {position("ca", "tabint")})})); break;
      case 2: case 3: u.push_back(doit(mth("put", var("ca", "tabint"), {position("ca", "tabint"), intarg()}, "tabint"))); break;
      case 4: case 5: u.push_back(doit(mth("insert", var("ca", "tabint"), {position("ca", "tabint"), intarg()}, "tabint"))); break;
      case 6: case 7: u.push_back(doit(mth("delete", var("ca", "tabint"), {position("ca", "tabint")}, "tabint"))); break;
      case 8: u.push_back(doit(mth("concat", var("ca", "tabint"), {intarg()}, "tabint"))); break;
      case 9: u.push_back(print({slit("at:"), mth("at", var("cs", "tabstr"), {position("cs", "tabstr")}, "str")})); break;
      case 10: u.push_back(doit(mth("put", var("cs", "tabstr"), {position("cs", "tabstr"), strarg()}, "tabstr"))); break;
      case 11: u.push_back(doit(mth("insert", var("cs", "tabstr"), {position("cs", "tabstr"), strarg()}, "tabstr"))); break;
      case 12: u.push_back(doit(mth("delete", var("cs", "tabstr"), {position("cs", "tabstr")}, "tabstr"))); break;
      case 13: u.push_back(doit(mth("concat", var("cs", "tabstr"), {strarg()}, "tabstr"))); break;
      case 14: u.push_back(doit(setitem(var("cu", "tup"), 1, r.chance(0.2) ? nul("int") : ilit(r.range(0, 9))))); break;
      case 15: u.push_back(doit(setitem(var("cu", "tup"), 2, slit("y" + std::to_string(r.below(9)))))); u.push_back(print({item(var("cu", "tup"), 2, "str"), item(var("cu", "tup"), 1), mth("count", var("cu", "tup"), {})})); break;
      case 16: u.push_back(print({slit("at:"), mth("at", var("cz", "str"), {position("cz", "str")})})); break;
      case 17: u.push_back(doit(mth("concat", var("cz", "str"), {r.chance(0.5) ? slit("+") : ilit(r.pick(std::vector<long>{65, 1, 255, 256, -1, 300}))}, "str"))); break;
      // statically mismatching operations: rejected at compile time, nothing changes
      case 18: u.push_back(json{{"k", "expect_parse_error"}, {"v", "do ca.put(0, \"str\");"}}); break;
      case 19: u.push_back(json{{"k", "expect_parse_error"}, {"v", "do cs.concat(5);"}}); break;
      case 20: u.push_back(json{{"k", "expect_parse_error"}, {"v", r.chance(0.5) ? "do cu.set@1(\"str\");" : "do cu.set@9(1);"}}); break;
      case 21: { static const char* LOCKED[] = {"forall zq in ca loop do ca.concat(1); end loop;", "forall zq in ca loop do ca.delete(0); end loop;",
                   // the lock of the outer traversal must survive an inner traversal of the same table
                   "forall zq in ca loop forall zr in ca loop print zr; end loop; do ca.delete(0); end loop;", "forall zq in ca loop forall zr in ca loop print zr; end loop; do ca.concat(zq); end loop;",
                   "forall zq in ca loop forall zr in ca loop print zr; end loop; ca = tab(1, 1); end loop;", "forall zq in ca loop forall zr in ca loop forall zs in ca loop print zs; end loop; end loop; do ca.insert(0, 5); end loop;"};
                 u.push_back(json{{"k", "expect_parse_error"}, {"v", LOCKED[r.below(6)]}}); break; }
      case 24: { // a string constant of the program text as the receiver, evaluated repeatedly
        json recv = slit("abc"); json st;
        switch (r.below(4)) { case 0: st = print({mth("concat", recv, {ilit(33)}, "str")}); break; case 1: st = print({mth("insert", recv, {ilit(r.range(0, 3)), r.chance(0.5) ? ilit(65) : slit("zz")}, "str")}); break;
                              case 2: st = print({mth("put", recv, {ilit(r.range(0, 2)), ilit(66)}, "str")}); break; default: st = print({mth("delete", recv, {ilit(r.range(0, 2))}, "str")}); break; }
        json loop{{"k", "for"}, {"n", "zk"}, {"a", ilit(1)}, {"b", ilit(3)}, {"step", nullptr}, {"dir", ""}}; loop["body"] = json::array({st}); u.push_back(loop); break; }
      // a traversed table cannot change length: mutation attempts reach copies only
      case 22: u.push_back(forall("zq", var("ca", "tabint"), {let("cb", var("ca", "tabint")), doit(mth("concat", var("cb", "tabint"), {ilit(1)}, "tabint")), json{{"k", "put"}, {"es", arr({call("grow", {var("ca", "tabint")}), slit(" ")})}}})); u.push_back(print({slit("")})); break;
      default: u.push_back(forall("zq", var("ca", "tabint"), {let("zq", bin("+", var("zq"), ilit(1)))}, r.chance(0.5) ? "desc" : "")); break;
      }
      show(u);
      if (mixable) u.insert(u.begin(), json{{"k", "may_be_rejected"}});   // int/decimal mixing: converted at run time or refused by the compiler
      U.push_back(u);
    }
    p.fault_points = pid;
    return U;
  }
};

static ProfileRegistrar reg(new C09());

} // namespace
