// Small constructors of generator AST nodes, shared by the property profiles.
#pragma once
#include "core/profile.h"
#include <string>
#include <vector>

namespace sim { namespace ast {
inline json ilit(long long v) { return json{{"k", "int"}, {"v", v}}; }
inline json blit(bool v) { return json{{"k", "bool"}, {"v", v}}; }
inline json slit(const std::string& s) { return json{{"k", "str"}, {"v", s}}; }
inline json nul(const char* t) { return json{{"k", "null"}, {"t", t}}; }
inline json var(const std::string& n, const char* t = "int") { return json{{"k", "var"}, {"n", n}, {"t", t}}; }
inline json bin(const char* op, json a, json b, const char* t = "int") { return json{{"k", "bin"}, {"op", op}, {"a", a}, {"b", b}, {"t", t}}; }
inline json arr(std::vector<json> v) { json a = json::array(); for (auto& e : v) a.push_back(e); return a; }
inline json print(std::vector<json> es) { return json{{"k", "print"}, {"es", arr(es)}}; }
inline json let(const std::string& n, json e) { return json{{"k", "let"}, {"n", n}, {"e", e}}; }
inline json ret(json e) { return json{{"k", "return"}, {"e", e}}; }
inline json doit(json e) { return json{{"k", "do"}, {"e", e}}; }
inline json call(const std::string& f, std::vector<json> args, const char* t = "int") { return json{{"k", "call"}, {"f", f}, {"args", arr(args)}, {"t", t}}; }
inline json mth(const char* m, json o, std::vector<json> args, const char* t = "int") { return json{{"k", "mth"}, {"m", m}, {"o", o}, {"args", arr(args)}, {"t", t}}; }
inline json item(json o, int i, const char* t = "int") { return json{{"k", "item"}, {"o", o}, {"i", i}, {"t", t}}; }
inline json setitem(json o, int i, json e) { return json{{"k", "setitem"}, {"o", o}, {"i", i}, {"e", e}, {"t", "tup"}}; }
inline json tab(json n, json e, const char* t = "tabint") { return json{{"k", "tab"}, {"n", n}, {"e", e}, {"t", t}}; }
inline json tup(std::vector<json> es) { return json{{"k", "tup"}, {"es", arr(es)}, {"t", "tup"}}; }
inline json iff(json c, std::vector<json> th, std::vector<json> el = {}) { return json{{"k", "if"}, {"c", c}, {"then", arr(th)}, {"elifs", json::array()}, {"else", arr(el)}}; }
inline json forl(const std::string& n, json a, json b, std::vector<json> body) { return json{{"k", "for"}, {"n", n}, {"a", a}, {"b", b}, {"step", nullptr}, {"dir", ""}, {"body", arr(body)}}; }
inline json forall(const std::string& n, json o, std::vector<json> body, const char* dir = "") { return json{{"k", "forall"}, {"n", n}, {"o", o}, {"dir", dir}, {"body", arr(body)}}; }
inline json func(const std::string& n, std::vector<std::pair<std::string, std::string>> params, const char* rt, std::vector<json> body) {
  json p = json::array(); for (auto& x : params) p.push_back(json{{"n", x.first}, {"t", x.second}, {"typed", false}});
  return json{{"k", "func"}, {"n", n}, {"params", p}, {"ret", rt}, {"body", arr(body)}};
}
inline json begin(std::vector<json> body, const char* handler, std::vector<json> hbody) { json h; h["n"] = handler; h["body"] = arr(hbody); json b; b["k"] = "begin"; b["body"] = arr(body); b["handlers"] = json::array({h}); return b; }
inline json err(int i) { return json{{"k", "err"}, {"i", i}, {"t", "str"}}; }
inline json pt(int id, const char* m, json recv, json e, const char* t) { return json{{"k", "pt"}, {"id", id}, {"m", m}, {"recv", recv}, {"e", e}, {"t", t}}; }
inline json raise(const char* n) { return json{{"k", "raise"}, {"n", n}}; }
inline bool has_tables(const json& a) { for (auto& st : a["prelude"]) if (st.value("k", "") == "let" && st.value("n", "") == "t0") return true; return false; }
} }
