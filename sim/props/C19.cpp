// C19 - the bloc command reports outcome, output and arguments faithfully.
// World: the repo's main() (apps/*.cpp compiled with -Dmain=bloc_cli_main) called inside the per-run child
// process; fd 1 and the --out file are simulator-owned, stdin is a SimStdin stream (plan-decided read
// fragmentation, select timeouts and EINTR), the wall clock is simulated, dlopen of libreadline is refused.
// Oracle: the same program run through the library in the same process.
#include "core/profile.h"
#include "core/util.h"
#include "gen/gen.h"
#include "gen/damage.h"
#include "oracle/world.h"
#include "oracle/stepguard.h"
#include "seams/capture.h"
#include "seams/clock.h"
#include "seams/sanreports.h"
#include "seams/simstdin.h"
#include "seams/vfhost.h"
#include "seams/wraps.h"
#include <blocc/collection.h>
#include <blocc/tuple.h>
#include <blocc/plugin_manager.h>
#include <fcntl.h>
#include <fstream>
#include <regex>
#include <sys/stat.h>

int bloc_cli_main(int argc, char** argv);   // apps/main.cpp, renamed at compile time

using namespace sim;

namespace {

struct RefRun { bool endless = false; bool compiled = false; bool ran_ok = false; std::string out, err; std::string perr, rerr; std::string returned; bool has_returned = false; };

// what main() is documented to print for a returned value, rendered independently of apps/main.cpp
static std::string render_returned(bloc::Value* v) {
  if (v->isNull()) return bloc::Value::STR_NIL;
  if (v->type().level() > 0) return "";
  switch (v->type().major()) {
  case bloc::Type::BOOLEAN: return bloc::Value::readableBoolean(*v->boolean());
  case bloc::Type::INTEGER: return bloc::Value::readableInteger(*v->integer());
  case bloc::Type::NUMERIC: return bloc::Value::readableNumeric(*v->numeric());
  case bloc::Type::LITERAL: return *v->literal();
  case bloc::Type::ROWTYPE: return bloc::Value::readableTuple(*v->tuple());
  case bloc::Type::IMAGINARY: return bloc::Value::readableImaginary(*v->imaginary());
  default: return "";
  }
}

static RefRun reference(const std::string& text, const std::vector<std::string>& args) {
  RefRun r; Capture out, err;
  {
    bloc::Context ctx(out.fd(), err.fd()); ctx.trusted(true);
    bloc::Collection* c = new bloc::Collection(bloc::Value::type_literal.levelUp());
    for (auto& a : args) c->push_back(bloc::Value(new bloc::Literal(a)));
    const bloc::Symbol& s = ctx.registerSymbol("$ARG", c->table_type());
    ctx.storeVariable(s.id(), bloc::Value(c));
    bloc::Executable* exe = nullptr;
    Outcome o = parse_text(ctx, text, exe);
    r.compiled = o.ok(); r.perr = o.text;
    if (exe) {
      StepGuard g(50000);
      Outcome ro = run_exe(exe);
      r.endless = g.exceeded;
      r.ran_ok = ro.ok(); r.rerr = ro.text;
      if (ro.ok()) { bloc::Value* v = ctx.dropReturned(); if (v) { r.has_returned = true; r.returned = render_returned(v); delete v; } }
      delete exe;
    }
    fflush(ctx.ctxout()); fflush(ctx.ctxerr());
  }
  r.out = out.read_all(); r.err = err.read_all();
  return r;
}

struct C19 : Profile {
  const char* id() const override { return "C19"; }
  long budget(const std::string& tier) const override { return tier == "thorough" ? 100000 : 10000; }
  bool fork_per_run() const override { return true; }
  std::string rule() const override {
    return "plan = generated program (succeeding, failing to compile through token damage, failing at run time, returning each value type or nothing) + argument vector "
           "(empty, many, spaces, quotes, non-ASCII, leading dashes) + mode {file, '-', --out=F, -e expr, -i} + stdin delivery schedule (stdio refill sizes, select timeouts, "
           "EINTR) for '-' and -i. The repo's main() runs in the per-run child with simulator-owned descriptors and a simulated clock. Oracle: the same program through the "
           "library: bytes on the selected output (+ returned value), $ARG echoed by the program, exit status 0 iff compiled and ran without unhandled error, "
           "'Error (l:c):' on stderr for compile errors, -e prints the value, the -i transcript minus prompts/Elapsed lines equals the printed results. "
           "Non-trivial = a failing program, a non-empty argument vector, a returned value, or a fragmented/delayed stdin; distinct = distinct event-trace hash.";
  }
  json components() const override { return json{{"real", {"apps/main.cpp main()", "apps/main_options.cpp", "apps/read_file.cpp", "apps/cli_parser.cpp (interactive loop, ReadInput)", "blocc/readstdin.c (select loop)", "blocc library"}}, {"stub", {"readline (dlopen of libreadline refused)", "terminal (stdout is a file: no colour)", "stdin (fopencookie stream), select() on fd 0 (plan decides timeouts/EINTR)", "CLOCK_REALTIME (simulated)"}}}; }
  std::vector<std::string> assumptions() const override { return {"interactive mode is fed programs without return statements and without runtime errors; its transcript is compared after removing prompts and Elapsed lines", "behaviour on a full disk / unwritable --out file is not defined by the property and not injected"}; }
  json sample(const json& plan) const override { json s = plan; if (s.contains("text") && s["text"].get<std::string>().size() > 700) s["text"] = s["text"].get<std::string>().substr(0, 700) + "..."; return s; }

  json generate(uint64_t vseed, uint64_t runno, const std::string&) override {
    Rng r(runseed(vseed, runno));
    json plan; plan["property"] = "C19";
    static const char* MODES[] = {"file", "file", "stdin", "out", "expr", "interactive"};
    std::string mode = MODES[r.below(6)];
    plan["mode"] = mode;
    GenKnobs k; k.fault_points = false; k.objects = false; k.top_statements = (int)r.range(2, 9); k.functions = (int)r.range(0, 2); k.max_depth = (int)r.range(1, 3);
    k.natural_error_rate = (mode == "interactive" || r.chance(0.6)) ? 0.0 : 0.03; k.natural_errors = k.natural_error_rate > 0; k.returns = false;
    Rng gr(subseed(runseed(vseed, runno), "gen")); GenProgram p = gen_program(gr, k);
    // the program echoes its arguments first
    std::string text = "print $ARG.count();\nforall a9 in $ARG loop\n  print \"[\" + a9 + \"]\";\nend loop;\n";
    // interactive mode runs statement by statement: no vf import needed either
    std::string body = print_program(p.ast);
    if (body.compare(0, 11, "import vf;\n") == 0) body = body.substr(11);
    { size_t q = body.find("v = vf();\n"); if (q != std::string::npos) body.erase(q, 10); }
    // names that merely begin with a word of the interactive command set are ordinary variables
    { Rng nr(subseed(runseed(vseed, runno), "names")); static const char* NM[] = {"running", "helper", "listing", "loaded", "saved", "cleared", "exitcode", "described", "dumped", "copyrighted", "licensed", "runs", "helps", "exits", "loads"};
      int nn = (int)nr.weighted({3, 2, 1}); for (int i = 0; i < nn; ++i) { std::string n = NM[nr.below(15)]; text += n + " = " + std::to_string(nr.range(1, 99)) + ";\nprint \"" + n + "=\" " + n + ";\n"; } }
    text += body;
    if (mode != "interactive") {
      static const char* RET[] = {"", "", "return i0 + 1;\n", "return s0 + \"!\";\n", "return b0;\n", "return 2.5;\n", "return tup(1, \"x\", 2.5);\n", "return t0;\n", "return null;\n", "return int();\n", "return str();\n", "return;\n", "import vf;\nreturn vf(5);\n", "import vf;\nreturn tab(2, vf(6));\n", "import vf;\nov9 = vf(8);\nreturn ov9;\n"};
      text += RET[r.below(15)];
      if (r.chance(0.25)) { std::string d; Rng dr(subseed(runseed(vseed, runno), "damage")); size_t nt = reflex(text).tokens.size(); text = damage_text(dr, text, (int)dr.weighted({3, 3, 2, 4, 2, 3, 1, 1, 1, 0}), dr.below(nt ? nt : 1), d); plan["damage"] = d; }
    }
    if (mode == "file" || mode == "out" || mode == "stdin") {
      // physical layout of the program file: CRLF line ends, and a first line whose terminator meets the chunk edges of the file reader
      Rng lr(subseed(runseed(vseed, runno), "layout"));
      long edge = lr.chance(0.25) ? lr.pick(std::vector<long>{1022, 1023, 2044, 2045, 2046}) + lr.range(-4, 4) : 0; bool crlf = lr.chance(0.3);
      if (edge > 0) text = std::string((size_t)edge, ' ') + "\n" + text;
      plan["crlf"] = crlf; plan["edge"] = edge;
    }
    plan["text"] = enc(text);
    if (mode == "expr") { static const char* EX[] = {"1 + 2 * 3", "\"a\" + \"b\"", "2.5 * 2", "true and false", "str()", "tup(1, \"x\")", "tab(2, 3)", "1 / 0", "1 +", "nosuch + 1", "3 > 2", "int(2.9)", "\"quoted \\\"x\\\"\"", "10 % 3"}; plan["text"] = EX[r.below(14)]; }
    json args = json::array(); int na = (int)r.weighted({3, 2, 2, 1, 1});
    static const char* A[] = {"one", "two words", "", "-x", "--out=zzz", "-", "qu\"ote", "tab\there", "caf\xC3\xA9", "a=b", "*", "$HOME", "\\n", "-e", "-i", "0"};
    for (int i = 0; i < na; ++i) { std::string a = A[r.below(16)]; if (mode == "interactive" && !a.empty() && a[0] == '-') a = "x" + a;   /* without a file name a leading dash is an option (usage: [options] [file|-] [args]) */ args.push_back(enc(a)); }
    plan["args"] = args;
    Rng sr(subseed(runseed(vseed, runno), "stdin"));
    json st; std::vector<int> ch; int n = (int)sr.weighted({2, 1, 1}) * (int)sr.range(1, 20); for (int i = 0; i < n; ++i) ch.push_back((int)sr.range(1, sr.chance(0.5) ? 8 : 200));
    st["chunks"] = ch; st["tail"] = sr.chance(0.5) ? 0 : (int)sr.range(1, 64); st["timeouts"] = (int)sr.weighted({3, 1, 1}); st["eintr"] = (int)sr.weighted({3, 1, 1});
    plan["stdin"] = st;
    return plan;
  }

  ExecResult execute(const json& plan) override {
    ExecResult res; EventLog ev;
    auto fail = [&](const std::string& cls, const std::string& msg) { if (res.vclass.empty()) { res.vclass = cls; res.message = msg; } };
    VfHost::get().reset();
    const std::string mode = plan.value("mode", "file"); std::string text = dec(plan.value("text", ""));
    std::vector<std::string> args; for (auto& a : plan.value("args", json::array())) args.push_back(dec(a.get<std::string>()));
    json st = plan.value("stdin", json::object());
    SimClock::enable(1700000000LL * 1000000000LL);
    // never load the real readline
    wraps().dlopen = [](const char* name, int, bool& handled) -> void* { if (name && strstr(name, "readline")) { handled = true; return nullptr; } return nullptr; };

    // ---- reference through the library
    RefRun ref;
    if (mode == "expr") {
      Capture out, err; { bloc::Context ctx(out.fd(), err.fd()); bloc::StringReader rd(text + " ;"); bloc::Parser* p = bloc::Parser::createInteractiveParser(ctx, rd); bloc::Expression* e = nullptr;
        try { e = p->parseExpression(); ref.compiled = true; bloc::Value& v = e->value(ctx); ref.ran_ok = true; ref.has_returned = true; ref.returned = render_returned(&v); } catch (bloc::Error& ee) { ref.perr = ee.what(); }
        delete e; delete p; }
    } else ref = reference(text, args);
    if (ref.endless) { // the (damaged) program does not terminate: nothing to compare
      ++res.probes["program_does_not_terminate"]; wraps().reset(); SimClock::disable(); res.trace_hash = ev.hash(); return res; }
    ev.add("ref:" + std::to_string(ref.compiled) + std::to_string(ref.ran_ok) + "|" + ref.out + "|" + ref.returned);
    bool expect_ok = ref.compiled && ref.ran_ok;

    // ---- the bloc command
    mkdir((bindir() + "/scratch").c_str(), 0777);
    // a name that is a function of the plan (replay must reproduce the trace exactly)
    const std::string base = bindir() + "/scratch/c19-" + std::to_string(fnv1a(plan.dump(-1, ' ', false, json::error_handler_t::replace)) % 100000000ULL);
    const std::string progfile = base + ".b", outfile = base + ".out";
    std::vector<std::string> argv_s = {"bloc"};
    std::unique_ptr<SimStdin> sin;
    auto make_stdin = [&](const std::string& data) { sin.reset(new SimStdin(data, st.value("chunks", std::vector<int>()), st.value("tail", 0), st.value("timeouts", 0), st.value("eintr", 0))); };
    std::string cli_text = text;
    if (plan.value("crlf", false)) { cli_text.clear(); for (char ch : text) { if (ch == '\n') cli_text += "\r\n"; else cli_text.push_back(ch); } ++res.probes["crlf_program_file"]; }
    if (plan.value("edge", 0L) > 0) ++res.probes["line_end_at_reader_chunk_edge"];
    if (mode == "file") { std::ofstream(progfile, std::ios::binary) << cli_text; argv_s.push_back(progfile); }
    else if (mode == "out") { std::ofstream(progfile, std::ios::binary) << cli_text; argv_s.push_back("--out=" + outfile); argv_s.push_back(progfile); }
    else if (mode == "stdin") { make_stdin(cli_text); argv_s.push_back("-"); }
    else if (mode == "expr") { argv_s.push_back("-e"); argv_s.push_back(text); }
    else { make_stdin(text); argv_s.push_back("-i"); }
    if (mode != "expr") for (auto& a : args) argv_s.push_back(a);
    std::vector<char*> argv; for (auto& s : argv_s) argv.push_back(const_cast<char*>(s.c_str())); argv.push_back(nullptr);

    Capture cout_; fflush(stdout); int saved1 = dup(1); dup2(cout_.fd(), 1);
    off_t mark = stderr_mark();
    int rc = -1; std::string foreign;
    { StepGuard g(200000); g.extra = [&](bloc::Context&, const bloc::Statement*) { SimClock::advance(1000000LL); };
      try { rc = bloc_cli_main((int)argv.size() - 1, argv.data()); }
      catch (std::exception& e) { foreign = std::string(typeid(e).name()) + ": " + e.what(); }
      catch (...) { foreign = "unknown exception"; }
      res.steps = g.steps; if (g.exceeded) fail("C19/step-budget", "the command did not finish within the statement budget"); }
    fflush(stdout); dup2(saved1, 1); close(saved1);
    std::string cli_out = cout_.read_all(), cli_err = stderr_since(mark);
    std::string file_out; if (mode == "out") { std::ifstream f(outfile); std::stringstream ss; ss << f.rdbuf(); file_out = ss.str(); }
    unlink(progfile.c_str()); unlink(outfile.c_str());
    long timeouts = sin ? sin->timeouts : 0, eintrs = sin ? sin->eintrs : 0;
    if (sin) { res.faults["stdin_short"] = sin->reads; if (timeouts) res.faults["select_timeout"] = timeouts; if (eintrs) res.faults["select_eintr"] = eintrs; if (sin->eof_seen) ++res.probes["stdin_eof_reached"]; }
    res.sim_time_s = (double)(SimClock::now_ns() - 1700000000LL * 1000000000LL) / 1e9;
    sin.reset(); wraps().reset(); SimClock::disable();
    ev.add("cli:" + std::to_string(rc) + "|" + cli_out + "|" + file_out);
    if (!foreign.empty()) fail("C19/exception-escaped-main", foreign);

    // ---- compare
    bool nontrivial = !args.empty() || !expect_ok || ref.has_returned || timeouts || eintrs || (st.value("chunks", std::vector<int>()).size() > 0 && (mode == "stdin" || mode == "interactive"));
    res.nontrivial = nontrivial; res.faulty = timeouts || eintrs || !expect_ok;
    ++res.probes["mode_" + mode]; if (!ref.compiled) ++res.probes["program_fails_to_compile"]; else if (!ref.ran_ok) ++res.probes["program_fails_at_run_time"]; if (ref.has_returned) ++res.probes["program_returns_value"];
    if (res.vclass.empty()) {
      if (mode == "interactive") {
        // prompts, banner and Elapsed lines removed: what remains are the printed results
        std::string t = cli_out;
        size_t nl = t.find("for more information.\n"); if (nl != std::string::npos) t = t.substr(nl + 22);
        auto strip = [&](const std::string& pat) { size_t p; while ((p = t.find(pat)) != std::string::npos) t.erase(p, pat.size()); };
        { std::regex el("\nElapsed: [0-9.]+\n"); t = std::regex_replace(t, el, ""); }
        strip(">>> "); strip("... ");
        if (ref.compiled && ref.ran_ok) { if (t != ref.out) fail("C19/interactive-output-differs", "'" + printable(t, 300) + "' vs library '" + printable(ref.out, 300) + "'"); if (rc != 0) fail("C19/exit-status", "interactive session ended with status " + std::to_string(rc)); }
      } else {
        std::string sel = mode == "out" ? file_out : cli_out;
        std::string want = ref.compiled ? ref.out + ((ref.ran_ok && ref.has_returned) ? ref.returned : std::string()) : std::string();
        if ((rc == 0) != expect_ok) fail("C19/exit-status", "exit status " + std::to_string(rc) + " but the program " + (ref.compiled ? (ref.ran_ok ? "ran without error" : "failed at run time: " + ref.rerr) : "did not compile: " + ref.perr));
        else if (sel != want) fail("C19/output-differs", "'" + printable(sel, 300) + "' vs library '" + printable(want, 300) + "'");
        else if (mode == "out" && !cli_out.empty()) fail("C19/output-on-stdout-despite-out-file", printable(cli_out, 200));
        else if (!ref.compiled && mode != "expr" && !std::regex_search(cli_err, std::regex("Error( \\([0-9]+:[0-9]+\\))?: "))) fail("C19/compile-error-not-reported", "stderr: '" + printable(cli_err, 200) + "'");
        else if (ref.compiled && !ref.ran_ok && cli_err.find("Error: ") == std::string::npos) fail("C19/runtime-error-not-reported", "stderr: '" + printable(cli_err, 200) + "'");
        else if (expect_ok && !ref.err.empty() && cli_err.find(ref.err) == std::string::npos) fail("C19/stderr-differs", "'" + printable(cli_err, 200) + "' vs '" + printable(ref.err, 200) + "'");
      }
    }
    // module objects created by the program (also a returned one) are released exactly once by the time the command ends
    if (res.vclass.empty() && foreign.empty()) for (auto& o : VfHost::get().objects) if (o.destroyed != 1) { fail("C19/module-object-not-released-exactly-once", "vf object #" + std::to_string(o.oid) + " (tag " + std::to_string(o.tag) + ") destroyed " + std::to_string(o.destroyed) + " times when the command had ended"); break; }
    if (!VfHost::get().objects.empty()) ++res.probes["programs_creating_module_objects"];
    res.trace_hash = ev.hash();
    return res;
  }

  std::vector<json> shrink(const json& plan) override {
    std::vector<json> v;
    json a = plan.value("args", json::array());
    for (size_t i = 0; i < a.size(); ++i) { json p = plan; p["args"].erase(p["args"].begin() + i); v.push_back(p); }
    if (plan.contains("stdin")) { json p = plan; p["stdin"] = json{{"chunks", json::array()}, {"tail", 0}, {"timeouts", 0}, {"eintr", 0}}; if (p["stdin"] != plan["stdin"]) v.push_back(p); }
    if (plan.value("mode", "") != "expr") {
      std::string text = dec(plan.value("text", ""));
      std::vector<std::string> lines; size_t b = 0; while (b < text.size()) { size_t e = text.find('\n', b); if (e == std::string::npos) e = text.size() - 1; lines.push_back(text.substr(b, e - b + 1)); b = e + 1; }
      for (size_t piece = lines.size() / 2; piece >= 1; piece /= 2) { for (size_t s = 0; s + piece <= lines.size() && v.size() < 150; s += piece) { std::string t; for (size_t i = 0; i < lines.size(); ++i) if (i < s || i >= s + piece) t += lines[i]; json p = plan; p["text"] = enc(t); v.push_back(p); } if (piece == 1) break; }
    }
    return v;
  }
};

static ProfileRegistrar reg(new C19());

} // namespace
