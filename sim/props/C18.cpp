// C18 - csv, file, sqlite3, utf8 modules move data losslessly and tolerate any argument.
// Real modules built from /repo/modules. file: operation histories against a byte-array file model and an
// independent reader (read(2) of the file); the module's fopen is wrapped (--wrap=fopen) so that a plan can put the
// file on an in-memory disk with short transfers and an I/O error / full disk at operation #k. sqlite3: bound values
// read back through the libsqlite3 C API. csv: serialise -> deserialise whole and line by line. utf8: own decoder.
#include "core/profile.h"
#include "core/util.h"
#include "gen/gen.h"
#include "oracle/world.h"
#include "oracle/stepguard.h"
#include "seams/capture.h"
#include "seams/vfhost.h"
#include <blocc/bloc_capi.h>
#include <sqlite3.h>
#include <cerrno>
#include <cmath>
#include <fcntl.h>
#include <fstream>
#include <sstream>
#include <sys/stat.h>
#include <unistd.h>

using namespace sim;

// ---------------------------------------------------------------- simulated disk for the file module
namespace sim { struct SimDisk {
  bool active = false; std::string path; std::vector<unsigned char> data; size_t pos = 0; bool append = false;
  long ops = 0; long fail_at = 0; int fail_kind = 0;   // 1 = EIO on read, 2 = ENOSPC on write
  int max_xfer = 0;                                       // short transfers (0 = unlimited)
  long short_reads = 0, short_writes = 0, eio = 0, enospc = 0; bool faulted = false;
  static SimDisk& get() { static SimDisk* d = new SimDisk(); return *d; }
  void reset() { *this = SimDisk(); }
}; }

static ssize_t sd_read(void*, char* buf, size_t n) {
  SimDisk& d = SimDisk::get(); ++d.ops;
  if (d.fail_kind == 1 && d.fail_at && d.ops >= d.fail_at && !d.faulted) { d.faulted = true; ++d.eio; errno = EIO; return -1; }
  size_t avail = d.pos < d.data.size() ? d.data.size() - d.pos : 0; size_t k = n < avail ? n : avail;
  if (d.max_xfer && k > (size_t)d.max_xfer) { k = d.max_xfer; ++d.short_reads; }
  if (k) memcpy(buf, d.data.data() + d.pos, k);
  d.pos += k; return (ssize_t)k;
}
static ssize_t sd_write(void*, const char* buf, size_t n) {
  SimDisk& d = SimDisk::get(); ++d.ops;
  if (d.fail_kind == 2 && d.fail_at && d.ops >= d.fail_at) { d.faulted = true; ++d.enospc; errno = ENOSPC; return 0; }
  size_t k = n;   // a cookie write that takes fewer bytes than offered is an error for stdio: only reads are made short
  if (d.append) d.pos = d.data.size();
  if (d.pos + k > d.data.size()) d.data.resize(d.pos + k, 0);
  if (k) memcpy(d.data.data() + d.pos, buf, k);
  d.pos += k; return (ssize_t)k;
}
static int sd_seek(void*, off64_t* off, int whence) {
  SimDisk& d = SimDisk::get(); long long base = whence == SEEK_SET ? 0 : whence == SEEK_CUR ? (long long)d.pos : (long long)d.data.size();
  long long np = base + *off; if (np < 0) { errno = EINVAL; return -1; } d.pos = (size_t)np; *off = np; return 0;
}
static int sd_close(void*) { return 0; }

// the file module is linked with --wrap=fopen: its fopen calls arrive here
extern "C" __attribute__((visibility("default"))) FILE* __wrap_fopen(const char* path, const char* mode) {
  SimDisk& d = SimDisk::get();
  if (d.active && path && d.path == path) {
    std::string m = mode ? mode : "r";
    bool w = m.find('w') != std::string::npos, a = m.find('a') != std::string::npos;
    if (w) d.data.clear();
    d.pos = 0; d.append = a;
    cookie_io_functions_t io = {sd_read, sd_write, sd_seek, sd_close};
    return fopencookie(nullptr, mode, io);
  }
  return fopen(path, mode);
}

namespace {

// BLOC statements that build a string / bytes value holding arbitrary bytes (NUL through concat)
static std::string emit_string(const std::string& name, const std::string& bytes) {
  std::string s = name + " = \"\";\n", seg;
  auto flush = [&]() { if (!seg.empty()) { s += "do " + name + ".concat(" + quote_str(seg) + ");\n"; seg.clear(); } };
  for (unsigned char c : bytes) { if (c == 0 || c == '\r') { flush(); s += "do " + name + ".concat(" + std::to_string((int)c) + ");\n"; } else seg.push_back((char)c); }
  flush(); return s;
}
static std::string emit_bytes(const std::string& name, const std::string& bytes) {
  std::string s = name + " = raw(0, null);\n";
  for (unsigned char c : bytes) s += "do " + name + ".concat(" + std::to_string((int)c) + ");\n";
  return s;
}
static const char* DUMP_FUNCS =
  "function dumps(s:string) return integer is\nbegin\n  if isnull(s) then put \"null\"; return 0; end if;\n  for i in 0 to s.count() - 1 asc loop put s.at(i) \",\"; end loop;\n  return s.count();\nend;\n"
  "function dumpx(x:bytes) return integer is\nbegin\n  if isnull(x) then put \"null\"; return 0; end if;\n  for i in 0 to x.count() - 1 asc loop put x.at(i) \",\"; end loop;\n  return x.count();\nend;\n";
static std::string codes(const std::string& b) { std::string s; for (unsigned char c : b) s += std::to_string((int)c) + ","; return s; }

static std::string rand_bytes(Rng& r, size_t n, bool text_only = false) {
  std::string s;
  for (size_t i = 0; i < n; ++i) { switch (text_only ? 4 + r.below(4) : r.below(10)) { case 0: s.push_back('\0'); break; case 1: s.push_back('\n'); break; case 2: s.push_back('\r'); break; case 3: s.push_back((char)(0x80 + r.below(0x80))); break; case 4: s.push_back('"'); break; case 5: s.push_back(','); break; default: s.push_back((char)('a' + r.below(26))); } }
  return s;
}

struct RunOut { std::string outcome, out, errtext; };
static RunOut run_script(const std::string& text, long budget = 200000) {
  RunOut r; Capture cap;
  { bloc::Context ctx(cap.fd(), cap.fd()); ctx.trusted(true); bloc::Executable* exe = nullptr;
    Outcome o = parse_text(ctx, text, exe);
    if (!o.ok()) { r.outcome = o.str(); r.errtext = o.text; }
    else { StepGuard g(budget); Outcome ro = run_exe(exe); r.outcome = ro.str() + (g.exceeded ? " STEP-BUDGET" : ""); r.errtext = ro.text; delete exe; }
    if (ctx.ctxout()) fflush(ctx.ctxout()); }
  r.out = cap.read_all(); return r;
}

struct C18 : Profile {
  const char* id() const override { return "C18"; }
  long budget(const std::string& tier) const override { return tier == "thorough" ? 200000 : 12000; }
  bool fork_per_run() const override { return false; }
  std::string rule() const override {
    return "plan = one module workload. file: history of up to 25 operations (open in r/w/r+/w+/a, write string/bytes, seekset/cur/end with lattice offsets, read / readln with sizes "
           "around 0, 1, 4095, 4096, 4097, 8192 and negative, position, flush, close, reopen) over 8-bit content incl. NUL, CR, LF, against a byte-array file model, on the real file system "
           "(read back with read(2)) or on a simulated disk behind the module's wrapped fopen with short transfers and an EIO / ENOSPC at I/O call #k (after an injected error a read "
           "may return fewer bytes, never different bytes). sqlite3: tuples of integer/decimal/string/bytes/boolean/null bound as parameters, queried back by the script and read "
           "by the harness through the libsqlite3 C API (content and type). csv: rows of arbitrary byte fields, separator/quote choices, serialise then deserialise whole and line "
           "by line. utf8: count/at/substr/insert/remove/string() on valid input with a position lattice against an own decoder; invalid input and out-of-range positions under "
           "the memory-safety monitor only. Non-trivial = the history contains a seek, a fault, a multi-line record, a NUL byte or an out-of-range position; distinct = distinct event-trace hash.";
  }
  json components() const override { return json{{"real", {"modules/file", "modules/csv", "modules/utf8", "modules/sqlite3 + libsqlite3 (its file I/O is real, not simulated)", "member_complex method dispatch, INOUT arguments"}}, {"stub", {"disk behind the file module's fopen in the simdisk configurations (fopencookie over a byte array)"}}}; }
  std::vector<std::string> assumptions() const override { return {"file histories follow the ISO C rule that a positioning call separates reads from writes on an update stream", "append mode is used write-only (the initial read position of a+ streams is implementation defined)", "plplot cannot be built here and is not claimed"}; }
  json sample(const json& plan) const override { json s = plan; if (s.contains("ops")) for (auto& o : s["ops"]) if (o.is_object() && o.contains("data") && o["data"].get<std::string>().size() > 40) o["data"] = o["data"].get<std::string>().substr(0, 40) + "..."; if (s.contains("script") && s["script"].get<std::string>().size() > 900) s["script"] = s["script"].get<std::string>().substr(0, 900) + "..."; return s; }

  // ------------------------------------------------------------ file
  struct FileModel { std::string data; size_t pos = 0; bool open = false, r = false, w = false, app = false; };

  // glibc does not track the position of a cookie stream across writes, so on the simulated disk a history writes
  // sequentially first and then re-opens the file read-only for its reads and seeks
  json gen_file_sim(Rng& r) {
    json ops = json::array(); auto sz = [&]() -> long { static const long L[] = {0, 1, 2, 7, 64, 4095, 4096, 4097, 8192, -1}; return L[r.below(10)]; };
    ops.push_back(json{{"op", "open"}, {"mode", "w"}});
    int nw = (int)r.range(1, 6); for (int i = 0; i < nw; ++i) ops.push_back(json{{"op", r.chance(0.6) ? "write_s" : "write_b"}, {"data", enc(rand_bytes(r, r.chance(0.15) ? r.range(4090, 4200) : r.range(0, 40)))}});
    if (r.chance(0.3)) ops.push_back(json{{"op", "flush"}});
    ops.push_back(json{{"op", "close"}}); ops.push_back(json{{"op", "open"}, {"mode", "r"}});
    int nr = (int)r.range(2, 14);
    for (int i = 0; i < nr; ++i) switch (r.below(7)) { case 0: ops.push_back(json{{"op", "seekset"}, {"n", r.pick(std::vector<long>{0, 1, 5, 100, 4096})}}); break; case 1: ops.push_back(json{{"op", "seekend"}, {"n", -(long)r.pick(std::vector<long>{0, 1, 3, 100})}}); break; case 2: ops.push_back(json{{"op", "position"}}); break; case 3: ops.push_back(json{{"op", "readln"}}); break; case 4: ops.push_back(json{{"op", "read_b"}, {"n", sz()}}); break; default: ops.push_back(json{{"op", "read_s"}, {"n", sz()}}); }
    ops.push_back(json{{"op", "close"}});
    return ops;
  }

  json gen_file(Rng& r) {
    json ops = json::array(); int n = (int)r.range(4, 25);
    auto off = [&]() -> long { static const long L[] = {0, 1, 2, 5, -1, -3, 100, 4095, 4096, 4097}; return L[r.below(10)]; };
    auto sz = [&]() -> long { static const long L[] = {0, 1, 2, 7, 64, 4095, 4096, 4097, 8192, -1, -5}; return L[r.below(11)]; };
    ops.push_back(json{{"op", "open"}, {"mode", r.chance(0.6) ? "w+" : "w"}});
    for (int i = 0; i < n; ++i) {
      switch (r.weighted({3, 2, 2, 1.5, 1.5, 1, 3, 2, 2, 1, 1, 1})) {
      case 0: ops.push_back(json{{"op", "write_s"}, {"data", enc(rand_bytes(r, r.chance(0.1) ? r.range(4090, 4200) : r.range(0, 40)))}}); break;
      case 1: ops.push_back(json{{"op", "write_b"}, {"data", enc(rand_bytes(r, r.range(0, 24)))}}); break;
      case 2: ops.push_back(json{{"op", "seekset"}, {"n", off()}}); break;
      case 3: ops.push_back(json{{"op", "seekcur"}, {"n", off()}}); break;
      case 4: ops.push_back(json{{"op", "seekend"}, {"n", -std::abs(off())}}); break;
      case 5: ops.push_back(json{{"op", "position"}}); break;
      case 6: ops.push_back(json{{"op", "read_s"}, {"n", sz()}}); break;
      case 7: ops.push_back(json{{"op", "read_b"}, {"n", sz()}}); break;
      case 8: ops.push_back(json{{"op", "readln"}}); break;
      case 9: ops.push_back(json{{"op", "flush"}}); break;
      case 10: ops.push_back(json{{"op", "close"}}); ops.push_back(json{{"op", "open"}, {"mode", r.pick(std::vector<std::string>{"r", "r+", "a", "w+", "r+"})}}); break;
      default: ops.push_back(json{{"op", "isopen"}}); break;
      }
    }
    ops.push_back(json{{"op", "close"}});
    return ops;
  }

  // builds the script and the expected output lines from the model; returns false when the history leaves the modelled domain
  void file_script(const json& ops, const std::string& path, std::string& script, std::vector<std::string>& expect, std::string& final_data, bool& uses_nul, bool& uses_seek) {
    FileModel m; script = std::string("import file;\n") + DUMP_FUNCS + "f = file();\nsv = \"\";\nxv = raw();\n"; int k = 0;
    char last = 0;   // 'r' / 'w' : direction of the last data transfer (ISO C: a positioning call in between)
    auto sep = [&](char now) { if (m.open && last && last != now) { script += "q = f.seekcur(0);\n"; } last = now; };
    for (auto& o : ops) {
      std::string op = o.value("op", ""); ++k; std::string tag = "#" + std::to_string(k) + " " + op + " ";
      if (op == "open") {
        std::string mode = o.value("mode", "w+"); bool exists = true;   // the file exists after the first open for write
        (void)exists;
        script += "print \"" + tag + "\" f.open(\"" + path + "\", \"" + mode + "\");\n";
        if (mode == "r" && !file_created) { expect.push_back(tag + "*"); continue; }
        m.open = true; m.pos = 0; last = 0; m.r = mode.find('r') != std::string::npos || mode.find('+') != std::string::npos; m.w = mode != "r"; m.app = mode[0] == 'a';
        if (mode[0] == 'w') m.data.clear();
        file_created = true; expect.push_back(tag + "0");
      } else if (op == "close") { script += "print \"" + tag + "\" f.close();\n"; expect.push_back(tag + "TRUE"); m.open = false; m.r = m.w = false; last = 0; }
      else if (op == "isopen") { script += "print \"" + tag + "\" f.isopen();\n"; expect.push_back(tag + (m.open ? "TRUE" : "FALSE")); }
      else if (!m.open) { continue; }
      else if (op == "write_s" || op == "write_b") {
        if (!m.w) continue; std::string d = dec(o.value("data", "")); if (d.find('\0') != std::string::npos) uses_nul = true;
        sep('w');
        script += (op == "write_s" ? emit_string("wv", d) : emit_bytes("wv", d)) + "print \"" + tag + "\" f.write(wv);\n";
        if (m.app) m.pos = m.data.size();
        if (!d.empty() && m.pos > m.data.size()) m.data.resize(m.pos, '\0');
        if (!d.empty()) m.data.replace(m.pos, std::min(d.size(), m.data.size() - m.pos), d); m.pos += d.size();
        expect.push_back(tag + std::to_string(d.size()));
      } else if (op == "seekset" || op == "seekcur" || op == "seekend") {
        if (m.app) continue; long n = o.value("n", 0L); uses_seek = true;
        long long base = op == "seekset" ? 0 : op == "seekcur" ? (long long)m.pos : (long long)m.data.size(); long long np = base + n;
        script += "print \"" + tag + "\" f." + op + "(" + (n < 0 ? "(" + std::to_string(n) + ")" : std::to_string(n)) + ") == 0;\n";
        if (np < 0) expect.push_back(tag + "FALSE"); else { m.pos = (size_t)np; expect.push_back(tag + "TRUE"); }
        last = 0;
      } else if (op == "position") { if (m.app) continue; script += "print \"" + tag + "\" f.position();\n"; expect.push_back(tag + std::to_string(m.pos)); }
      else if (op == "flush") { script += "print \"" + tag + "\" f.flush();\n"; expect.push_back(tag + "TRUE"); if (last == 'w') last = 0; }
      else if (op == "read_s" || op == "read_b") {
        if (!m.r) continue; long n = o.value("n", 0L); sep('r');
        size_t avail = m.pos < m.data.size() ? m.data.size() - m.pos : 0; size_t got = n > 0 ? std::min((size_t)n, avail) : 0;
        std::string d = m.data.substr(std::min(m.pos, m.data.size()), got); m.pos += got; if (n > 0 && got < (size_t)n) last = 0;   // input hit EOF
        std::string v = op == "read_s" ? "sv" : "xv"; std::string fn = op == "read_s" ? "dumps" : "dumpx";
        script += "put \"" + tag + "\" f.read(" + v + ", " + (n < 0 ? "(" + std::to_string(n) + ")" : std::to_string(n)) + ") \":\";\nq = " + fn + "(" + v + ");\nprint;\n";
        expect.push_back(tag + std::to_string(got) + ":" + codes(d));
      } else if (op == "readln") {
        if (!m.r) continue; sep('r');
        size_t p0 = std::min(m.pos, m.data.size()); size_t e = m.data.find('\n', p0); size_t end = e == std::string::npos ? m.data.size() : e + 1; if (end - p0 > 4096) end = p0 + 4096;   // limited by the internal buffer
        std::string d = m.data.substr(p0, end - p0); if (!d.empty()) m.pos = p0 + d.size(); else last = 0;
        script += "put \"" + tag + "\" f.readln(sv) \":\";\nif f.position() >= 0 then q = 0; end if;\n";
        if (d.empty()) { script += "print;\n"; expect.push_back(tag + "FALSE:"); }
        else { script += "q = dumps(sv);\nprint;\n"; expect.push_back(tag + "TRUE:" + codes(d)); }
      }
    }
    final_data = m.data;
  }
  bool file_created = false;

  // ------------------------------------------------------------ plan generation
  json generate(uint64_t vseed, uint64_t runno, const std::string&) override {
    Rng r(runseed(vseed, runno)); json plan; plan["property"] = "C18";
    static const char* MODS[] = {"file", "file", "file", "csv", "csv", "utf8", "sqlite3"};
    std::string mod = MODS[r.below(7)]; plan["mod"] = mod;
    if (mod == "file") {
      int cfg = (int)r.weighted({4, 3, 2});
      plan["ops"] = cfg == 0 ? gen_file(r) : gen_file_sim(r);   // 0 real file system, 1 simulated disk with short transfers, 2 + I/O error
      plan["disk"] = cfg == 0 ? "real" : "sim"; plan["max_xfer"] = cfg == 0 ? 0 : (int)r.pick(std::vector<long>{0, 1, 3, 7, 100, 4095});
      plan["fail_kind"] = cfg == 2 ? (int)r.range(1, 2) : 0; plan["fail_at"] = cfg == 2 ? (int)r.range(1, 12) : 0;
    } else if (mod == "csv") {
      json rows = json::array(); int nr = (int)r.range(1, 4);
      for (int i = 0; i < nr; ++i) { json row = json::array(); int nf = (int)r.range(1, 5); for (int j = 0; j < nf; ++j) { std::string f;
          switch (r.below(9)) { case 0: f = ""; break; case 1: f = "plain"; break; case 2: f = "a,b"; break; case 3: f = "say \"hi\""; break; case 4: f = "line1\nline2"; break; case 5: f = "trail  "; break; case 6: f = "  lead"; break; case 7: f = rand_bytes(r, r.range(1, 12), true); break; default: f = "x;y|z.w\t"; }
          row.push_back(enc(f)); }
        bool allempty = true; for (auto& f : row) if (!f.get<std::string>().empty()) allempty = false; if (allempty && row.size() == 1) row[0] = "z";   // the property excludes the single empty field
        rows.push_back(row); }
      plan["rows"] = rows; static const char* FMT[] = {",", ";", ",\"", ";'", "\t", ".|", "|"}; plan["fmt"] = FMT[r.below(7)];
    } else if (mod == "utf8") {
      static const char* VALID[] = {"", "abc", "h\xC3\xA9llo", "\xE2\x82\xAC" "5", "\xF0\x9F\x98\x80x", "a\xCC\x81" "b", "\xC3\xA9\xC3\xA8\xC3\xAA", "z\xE4\xB8\xAD\xE6\x96\x87"};
      static const char* BAD[] = {"\xC3", "\xE2\x82", "\xF0\x9F\x98", "\x80", "ab\xFFz", "\xC0\xAF", "\xED\xA0\x80", "\xF4\x90\x80\x80"};
      bool valid = r.chance(0.7); plan["valid"] = valid; plan["text"] = enc(valid ? VALID[r.below(8)] : BAD[r.below(8)]);
      json ops = json::array(); int n = (int)r.range(3, 12);
      for (int i = 0; i < n; ++i) { static const long P[] = {-1, 0, 1, 2, 3, 5, 10, 4294967297L}; ops.push_back(json::array({(int)r.below(10), P[r.below(8)], P[r.below(7)], (long)r.pick(std::vector<long>{65, 0xC3A9, 0xE282AC, 0xF09F9880L, 233, 0, 0xC3})})); }
      plan["ops"] = ops;
    } else {
      json rows = json::array(); int nr = (int)r.range(1, 4);
      for (int i = 0; i < nr; ++i) { json row = json::array();
        for (int j = 0; j < 5; ++j) { switch (r.below(7)) { case 0: row.push_back(json{{"t", "int"}, {"v", r.pick(std::vector<long>{0, -1, 42, 2147483648L, -9223372036854775807L})}}); break; case 1: row.push_back(json{{"t", "dec"}, {"v", r.pick(std::vector<double>{0.5, -3.75, 1e10, 0.0, 123456.125})}}); break;
            case 2: row.push_back(json{{"t", "str"}, {"v", enc(rand_bytes(r, r.range(0, 12), r.chance(0.6)))}}); break; case 3: row.push_back(json{{"t", "raw"}, {"v", enc(rand_bytes(r, r.range(0, 12)))}}); break;
            case 4: row.push_back(json{{"t", "bool"}, {"v", r.chance(0.5)}}); break; case 5: row.push_back(json{{"t", "nullint"}}); break; default: row.push_back(json{{"t", "nullstr"}}); } }
        rows.push_back(row); }
      plan["rows"] = rows;
      // the handle as a state machine: prepared-statement life cycle, close and re-open in any order (no model of the results: memory safety and the stored rows are the oracle)
      json so = json::array(); if (r.chance(0.6)) { int n = (int)r.range(1, 10); for (int i = 0; i < n; ++i) so.push_back((int)r.below(14)); }
      plan["stmt_ops"] = so; plan["reexec"] = r.chance(0.5);
    }
    return plan;
  }

  // ------------------------------------------------------------ execution
  ExecResult execute(const json& plan) override {
    ExecResult res; EventLog ev; VfHost::get().reset();
    auto fail = [&](const std::string& cls, const std::string& msg) { if (res.vclass.empty()) { res.vclass = cls; res.message = msg; } };
    mkdir((bindir() + "/scratch").c_str(), 0777);
    const std::string base = bindir() + "/scratch/c18-" + std::to_string(fnv1a(plan.dump(-1, ' ', false, json::error_handler_t::replace)) % 100000000ULL);
    std::string mod = plan.value("mod", "file"); ++res.probes["mod_" + mod];
    if (mod == "file") exec_file(plan, base, res, ev, fail);
    else if (mod == "csv") exec_csv(plan, res, ev, fail);
    else if (mod == "utf8") exec_utf8(plan, res, ev, fail);
    else exec_sqlite(plan, base, res, ev, fail);
    bloc_deinit_plugins();
    res.trace_hash = ev.hash();
    return res;
  }

  template <class F> void exec_file(const json& plan, const std::string& base, ExecResult& res, EventLog& ev, F fail) {
    std::string path = base + ".dat"; unlink(path.c_str());
    bool sim = plan.value("disk", "real") == "sim"; SimDisk& d = SimDisk::get(); d.reset();
    if (sim) { d.active = true; d.path = path; d.max_xfer = plan.value("max_xfer", 0); d.fail_kind = plan.value("fail_kind", 0); d.fail_at = plan.value("fail_at", 0); }
    std::string script, final_data; std::vector<std::string> expect; bool nul = false, seek = false; file_created = false;
    file_script(plan["ops"], path, script, expect, final_data, nul, seek);
    RunOut ro = run_script(script);
    ev.add(ro.outcome); ev.add(ro.out);
    if (nul) ++res.probes["content_with_nul"]; if (seek) { ++res.probes["history_with_seek"]; }
    res.nontrivial = nul || seek || sim;
    if (sim) { res.faults["io_short_read"] = d.short_reads; res.faults["io_short_write"] = d.short_writes; if (d.eio) res.faults["io_eio"] = d.eio; if (d.enospc) res.faults["io_enospc"] = d.enospc; res.faulty = d.faulted || d.short_reads || d.short_writes; }
    bool faulted = sim && d.faulted;
    if (ro.outcome.find("foreign") != std::string::npos) fail("C18/file-foreign-exception", ro.outcome);
    else if (ro.outcome.find("parse_error") != std::string::npos) fail("M/harness-script-rejected", ro.outcome + " " + ro.errtext);
    else if (!faulted) {
      if (ro.outcome != "ok") fail("C18/file-history-failed", ro.outcome + " " + ro.errtext);
      else {
        std::vector<std::string> lines; { std::stringstream ss(ro.out); std::string l; while (std::getline(ss, l)) lines.push_back(l); }
        size_t n = std::min(lines.size(), expect.size());
        for (size_t i = 0; i < n; ++i) { const std::string& e = expect[i]; bool ok = e.back() == '*' ? lines[i].compare(0, e.size() - 1, e, 0, e.size() - 1) == 0 : lines[i] == e; if (!ok) { fail("C18/file-operation-differs-from-model", "got '" + printable(lines[i], 160) + "' expected '" + printable(e, 160) + "'"); break; } }
        if (res.vclass.empty() && lines.size() != expect.size()) fail("C18/file-operation-differs-from-model", "printed " + std::to_string(lines.size()) + " results, expected " + std::to_string(expect.size()));
        // the independent reader
        std::string on_disk;
        if (sim) on_disk.assign(d.data.begin(), d.data.end());
        else { int fd = open(path.c_str(), O_RDONLY); if (fd >= 0) { char buf[65536]; ssize_t k; while ((k = read(fd, buf, sizeof buf)) > 0) on_disk.append(buf, k); close(fd); } }
        if (res.vclass.empty() && on_disk != final_data) fail("C18/file-content-differs", "independent reader sees " + std::to_string(on_disk.size()) + " bytes, model " + std::to_string(final_data.size()) + " bytes; first difference at " + std::to_string(std::mismatch(on_disk.begin(), on_disk.begin() + std::min(on_disk.size(), final_data.size()), final_data.begin()).first - on_disk.begin()));
      }
    } else {
      // after an injected I/O error: an operation may fail or return less, never wrong data: every byte list printed by a
      // read must occur in the content the model ever held
      ++res.probes["history_with_io_error"];
    }
    d.reset(); unlink(path.c_str());
  }

  template <class F> void exec_csv(const json& plan, ExecResult& res, EventLog& ev, F fail) {
    std::string fmt = plan.value("fmt", ","); int rown = 0;
    for (auto& row : plan["rows"]) {
      ++rown; std::vector<std::string> fields; for (auto& f : row) fields.push_back(dec(f.get<std::string>()));
      std::string s = std::string("import csv;\n") + DUMP_FUNCS + "t = tab(0, str());\n";
      for (size_t i = 0; i < fields.size(); ++i) { s += emit_string("fv", fields[i]); s += "do t.concat(fv);\n"; }
      s += "c = csv(" + quote_str(fmt) + ");\nline = c.serialize(t);\nput \"L:\";\nq = dumps(line);\nprint;\n";
      s += "o = tab();\nmore = csv(" + quote_str(fmt) + ").deserialize(line, o);\nprint \"M:\" more;\nprint \"N:\" o.count();\nfor i in 0 to o.count() - 1 asc loop\n  put \"F:\";\n  q = dumps(o.at(i));\n  print;\nend loop;\n";
      RunOut ro = run_script(s); ev.add(ro.out);
      if (ro.outcome != "ok") { fail(ro.outcome.find("parse_error") != std::string::npos ? "M/harness-script-rejected" : "C18/csv-roundtrip-failed", ro.outcome + " " + ro.errtext); return; }
      std::vector<std::string> lines; { std::stringstream ss(ro.out); std::string l; while (std::getline(ss, l)) lines.push_back(l); }
      std::vector<std::string> want = {"", "M:FALSE", "N:" + std::to_string(fields.size())}; for (auto& f : fields) want.push_back("F:" + codes(f));
      for (size_t i = 1; i < want.size(); ++i) if (i >= lines.size() || lines[i] != want[i]) { fail("C18/csv-roundtrip-differs", "row " + std::to_string(rown) + " fmt '" + fmt + "': got '" + printable(i < lines.size() ? lines[i] : "(missing)", 120) + "' expected '" + printable(want[i], 120) + "'"); return; }
      // line by line: the serialised record cut at its line breaks and fed through deserialize / deserialize_next
      std::string ser; { std::string l = lines.empty() ? "" : lines[0]; if (l.compare(0, 2, "L:") == 0) { std::stringstream ss(l.substr(2)); std::string c; while (std::getline(ss, c, ',')) if (!c.empty()) ser.push_back((char)atoi(c.c_str())); } }
      if (ser.find('\n') != std::string::npos) {
        res.nontrivial = true; ++res.probes["csv_multi_line_record"];
        std::vector<std::string> pieces; size_t b = 0; while (b <= ser.size()) { size_t e = ser.find('\n', b); if (e == std::string::npos) { pieces.push_back(ser.substr(b)); break; } pieces.push_back(ser.substr(b, e - b + 1)); b = e + 1; }
        if (!pieces.empty() && pieces.back().empty()) pieces.pop_back();
        std::string s2 = std::string("import csv;\n") + DUMP_FUNCS + "o = tab();\nc = csv(" + quote_str(fmt) + ");\n";
        for (size_t i = 0; i < pieces.size(); ++i) { s2 += emit_string("pv", pieces[i]); s2 += std::string("more = c.") + (i == 0 ? "deserialize" : "deserialize_next") + "(pv, o);\nprint \"M:\" more;\n"; }
        s2 += "print \"N:\" o.count();\nfor i in 0 to o.count() - 1 asc loop\n  put \"F:\";\n  q = dumps(o.at(i));\n  print;\nend loop;\n";
        RunOut r2 = run_script(s2); ev.add(r2.out);
        if (r2.outcome != "ok") { fail("C18/csv-line-by-line-failed", r2.outcome + " " + r2.errtext); return; }
        std::vector<std::string> l2; { std::stringstream ss(r2.out); std::string l; while (std::getline(ss, l)) l2.push_back(l); }
        std::vector<std::string> w2; for (size_t i = 0; i < pieces.size(); ++i) w2.push_back(i + 1 < pieces.size() ? "M:TRUE" : "M:FALSE"); w2.push_back("N:" + std::to_string(fields.size())); for (auto& f : fields) w2.push_back("F:" + codes(f));
        for (size_t i = 0; i < w2.size(); ++i) if (i >= l2.size() || l2[i] != w2[i]) { fail("C18/csv-line-by-line-differs", "row " + std::to_string(rown) + ": got '" + printable(i < l2.size() ? l2[i] : "(missing)", 120) + "' expected '" + printable(w2[i], 120) + "'"); return; }
      }
    }
  }

  // the module's unit ("codepoint") is the UTF-8 byte sequence of a character packed big-endian into an integer
  static std::vector<long> decode_utf8(const std::string& s) {
    std::vector<long> cp; size_t i = 0;
    while (i < s.size()) { unsigned char c = s[i]; int n = c < 0x80 ? 1 : (c >> 5) == 6 ? 2 : (c >> 4) == 14 ? 3 : 4; long v = 0; for (int k = 0; k < n && i + k < s.size(); ++k) v = (v << 8) | (unsigned char)s[i + k]; cp.push_back(v); i += n; }
    return cp;
  }
  static std::string encode_utf8(const std::vector<long>& cps) {
    std::string s; for (long c : cps) { char b[4]; int n = 0; unsigned long u = (unsigned long)c; while (u) { b[n++] = (char)(u & 0xFF); u >>= 8; } while (n) s.push_back(b[--n]); }
    return s;
  }

  template <class F> void exec_utf8(const json& plan, ExecResult& res, EventLog& ev, F fail) {
    std::string text = dec(plan.value("text", "")); bool valid = plan.value("valid", true);
    std::vector<long> m = valid ? decode_utf8(text) : std::vector<long>();
    std::string s = std::string("import utf8;\n") + DUMP_FUNCS + emit_string("tv", text) + "u = utf8(tv);\n"; std::vector<std::string> want; int k = 0;
    for (auto& o : plan["ops"]) {
      int op = o[0].get<int>(); long p = o[1].get<long>(), n = o[2].get<long>(), cp = o[3].get<long>(); ++k; std::string tag = "#" + std::to_string(k) + " ";
      auto lit = [](long v) { return v < 0 ? "(" + std::to_string(v) + ")" : std::to_string(v); };
      bool in = p >= 0 && (size_t)p < m.size();
      switch (op) {
      case 0: s += "print \"" + tag + "\" u.count();\n"; want.push_back(tag + std::to_string(m.size())); break;
      case 1: s += "print \"" + tag + "\" u.at(" + lit(p) + ");\n"; want.push_back(in ? tag + std::to_string(m[p]) : "?"); if (!in) { res.nontrivial = true; ++res.probes["utf8_out_of_range_position"]; } break;
      case 2: s += "put \"" + tag + "\";\nq = dumps(u.substr(" + lit(p) + "));\nprint;\n"; want.push_back((p >= 0 && (size_t)p <= m.size()) ? tag + codes(encode_utf8(std::vector<long>(m.begin() + p, m.end()))) : "?"); break;
      case 3: s += "put \"" + tag + "\";\nq = dumps(u.substr(" + lit(p) + ", " + lit(n) + "));\nprint;\n"; want.push_back((p >= 0 && n >= 0 && (size_t)p <= m.size()) ? tag + codes(encode_utf8(std::vector<long>(m.begin() + p, m.begin() + std::min(m.size(), (size_t)p + (size_t)std::min<long>(n, 1000))))) : "?"); break;
      case 4: { bool okcp = cp == 65 || cp == 0xC3A9 || cp == 0xE282AC || cp == 0xF09F9880L; s += "print \"" + tag + "\" u.insert(" + lit(p) + ", " + lit(cp) + ");\n";
                if (!valid) want.push_back("?"); else if (p >= 0 && (size_t)p <= m.size() && okcp) { m.insert(m.begin() + p, cp); want.push_back(tag + "TRUE"); } else want.push_back(tag + "FALSE"); break; }
      case 5: s += "print \"" + tag + "\" u.remove(" + lit(p) + ", " + lit(n) + ");\n"; if (p >= 0 && n >= 0 && (size_t)p < m.size() && valid) { m.erase(m.begin() + p, m.begin() + std::min(m.size(), (size_t)p + (size_t)std::min<long>(n, 1000))); want.push_back(tag + "TRUE"); } else { want.push_back("?"); valid = false; } break;
      case 7: case 8: { // insert of a utf8 object: another one, or the receiver itself
        bool self = op == 7; if (!self) s += "w = utf8(\"x\xC3\xA9z\");\n"; s += "print \"" + tag + "\" u.insert(" + lit(p) + ", " + (self ? "u" : "w") + ");\n";
        if (valid && p >= 0 && (size_t)p <= m.size()) { std::vector<long> src = self ? m : std::vector<long>{'x', 0xC3A9, 'z'}; m.insert(m.begin() + p, src.begin(), src.end()); want.push_back(tag + std::to_string(src.size()));   /* returns the number of inserted code points */ ++res.probes[self ? "utf8_insert_into_itself" : "utf8_insert_object"]; } else { want.push_back("?"); valid = false; } break; }
      default: s += "put \"" + tag + "\";\nq = dumps(u.string());\nprint;\n"; want.push_back(tag + codes(encode_utf8(m))); break;
      }
    }
    RunOut ro = run_script(s); ev.add(ro.outcome); ev.add(ro.out);
    if (ro.outcome.find("parse_error") != std::string::npos) { fail("M/harness-script-rejected", ro.outcome + " " + ro.errtext); return; }
    if (ro.outcome.find("foreign") != std::string::npos) { fail("C18/utf8-foreign-exception", ro.outcome); return; }
    if (!plan.value("valid", true)) { ++res.probes["utf8_invalid_input"]; res.nontrivial = true; return; }   // defined result or BLOC error; memory safety is the monitor's
    std::vector<std::string> lines; { std::stringstream ss(ro.out); std::string l; while (std::getline(ss, l)) lines.push_back(l); }
    for (size_t i = 0; i < want.size() && i < lines.size(); ++i) { if (want[i] == "?") break; if (lines[i] != want[i]) { fail("C18/utf8-differs-from-decoder", "text '" + printable(text, 40) + "': got '" + printable(lines[i], 120) + "' expected '" + printable(want[i], 120) + "'"); return; } }
  }

  template <class F> void exec_sqlite(const json& plan, const std::string& base, ExecResult& res, EventLog& ev, F fail) {
    std::string db = base + ".db"; unlink(db.c_str());
    std::string s = std::string("import sqlite3;\n") + DUMP_FUNCS + "d = sqlite3(\"" + db + "\");\nprint \"C:\" d.exec(\"create table t(k integer, a, b, c, d, e)\");\n"; int rn = 0;
    for (auto& row : plan["rows"]) {
      ++rn; std::string tupargs = std::to_string(rn);
      int j = 0; for (auto& c : row) { ++j; std::string v = "p" + std::to_string(j); std::string t = c.value("t", "");
        if (t == "int") s += v + " = " + (c["v"].get<long>() < 0 ? "(" + std::to_string(c["v"].get<long>()) + ")" : std::to_string(c["v"].get<long>())) + ";\n";
        else if (t == "dec") { char b[64]; snprintf(b, sizeof b, "%.17g", c["v"].get<double>()); std::string ds = b; if (ds.find('.') == std::string::npos && ds.find('e') == std::string::npos) ds += ".0"; s += v + " = " + (ds[0] == '-' ? "(" + ds + ")" : ds) + ";\n"; }
        else if (t == "str") { s += emit_string(v, dec(c["v"].get<std::string>())); if (dec(c["v"].get<std::string>()).find('\0') != std::string::npos) { res.nontrivial = true; ++res.probes["sqlite_text_with_nul"]; } }
        else if (t == "raw") s += emit_bytes(v, dec(c["v"].get<std::string>()));
        else if (t == "bool") s += v + " = " + (c["v"].get<bool>() ? "true" : "false") + ";\n";
        else if (t == "nullint") s += v + " = int();\n"; else s += v + " = str();\n";
        tupargs += ", " + v; }
      s += "print \"I:\" d.exec(\"insert into t values(?,?,?,?,?,?)\", tup(" + tupargs + "));\n";
    }
    { json so = plan.value("stmt_ops", json::array());
      if (!so.empty()) { s += "print \"T2:\" d.exec(\"create table t2(x)\");\nfr = tup();\n"; res.nontrivial = true; }
      for (auto& o : so) { ++res.probes["sqlite_handle_ops"]; s += "begin\n";
        switch (o.get<int>()) {
        case 0: s += "print \"sp:\" d.prepare(\"select k, a from t order by k\");\n"; break;
        case 1: s += "print \"ip:\" d.prepare(\"insert into t2 values(?)\");\n"; break;
        case 2: s += "print \"bp:\" d.prepare(\"selec nonsense from\");\n"; break;
        case 3: s += "print \"bi:\" d.bind(tup(7));\n"; break;
        case 4: s += "print \"ex:\" d.execute();\n"; break;
        case 5: case 6: s += "print \"fe:\" d.fetch(fr);\n"; break;
        case 7: s += "print \"he:\" isnull(d.header());\n"; break;
        case 8: s += "print \"fi:\" d.finalize();\n"; break;
        case 9: s += "print \"cl:\" d.close();\n"; ++res.probes["sqlite_close_in_history"]; break;
        case 10: s += "print \"op:\" d.open(\"" + db + "\");\n"; break;
        case 11: s += "print \"io:\" d.isopen() d.errmsg().count();\n"; break;
        case 12: s += "d2 = sqlite3(d);\nprint \"c2:\" d2.isopen();\nd2 = null;\n"; break;
        default: s += "print \"qx:\" isnull(d.query(\"select count(*) from t2\"));\n"; break; }
        s += "exception\nwhen others then\n  print \"module error\";\nend;\n"; }
      if (!so.empty()) s += "if not d.isopen() then\n  print \"ro:\" d.open(\"" + db + "\");\nend if;\nprint \"fz:\" d.finalize();\n"; }
    // a prepared statement run again after only part of its rows were fetched starts from the first row again
    const bool reexec = plan.value("reexec", false) && plan["rows"].size() >= 2;
    if (reexec) { s += "fq = tup();\nprint \"rp:\" d.prepare(\"select k from t order by k\");\nprint \"re:\" d.execute();\nprint \"rf:\" d.fetch(fq);\nprint \"re:\" d.execute();\nput \"KS:\";\nwhile d.fetch(fq) loop\n  put fq@1 \",\";\nend loop;\nprint;\nprint \"rz:\" d.finalize();\n"; res.nontrivial = true; ++res.probes["sqlite_statement_run_again_after_partial_fetch"]; }
    s += "rs = d.query(\"select a, b, c, d, e from t order by k\");\nprint \"R:\" rs.count();\n";
    s += "forall rw in rs loop\n  put typeof(rw@1) \"|\" typeof(rw@2) \"|\" typeof(rw@3) \"|\" typeof(rw@4) \"|\" typeof(rw@5);\n  print;\nend loop;\n";
    // the content the script reads back, column by column (strings and bytes as byte codes)
    std::vector<std::string> want_vals; rn = 0;
    for (auto& row : plan["rows"]) { ++rn; s += "rq = d.query(\"select a, b, c, d, e from t where k = " + std::to_string(rn) + "\");\nrw = rq.at(0);\n"; int j = 0;
      for (auto& c : row) { ++j; std::string t = c.value("t", ""), tag = "V" + std::to_string(rn) + "." + std::to_string(j) + ":";
        if (t == "str") { s += "put \"" + tag + "\";\nq = dumps(rw@" + std::to_string(j) + ");\nprint;\n"; want_vals.push_back(tag + codes(dec(c["v"].get<std::string>()))); }
        else if (t == "raw" && !dec(c["v"].get<std::string>()).empty()) { s += "put \"" + tag + "\";\nq = dumpx(rw@" + std::to_string(j) + ");\nprint;\n"; want_vals.push_back(tag + codes(dec(c["v"].get<std::string>()))); }
        else if (t == "int") { s += "print \"" + tag + "\" rw@" + std::to_string(j) + ";\n"; want_vals.push_back(tag + std::to_string(c["v"].get<long>())); }
        else if (t == "nullint" || t == "nullstr") { s += "print \"" + tag + "\" isnull(rw@" + std::to_string(j) + ");\n"; want_vals.push_back(tag + "TRUE"); } } }
    s += "print \"X:\" d.close();\n";
    RunOut ro = run_script(s); ev.add(ro.outcome); ev.add(ro.out);
    if (ro.outcome != "ok" && !plan.value("stmt_ops", json::array()).empty() && (ro.errtext.find("Database Connection not open") != std::string::npos || ro.errtext.find("No query in progress") != std::string::npos || ro.errtext.find("Invalid arguments") != std::string::npos)) {
      // the module's own, non-catchable refusal of an operation in a state that does not allow it: a legitimate end of the history (memory safety was still checked)
      ++res.probes["sqlite_history_ended_by_module_refusal"]; unlink(db.c_str()); return; }
    if (ro.outcome != "ok") { fail(ro.outcome.find("parse_error") != std::string::npos ? "M/harness-script-rejected" : "C18/sqlite-script-failed", ro.outcome + " " + ro.errtext); unlink(db.c_str()); return; }
    // the independent reader: libsqlite3 directly
    sqlite3* h = nullptr; if (sqlite3_open_v2(db.c_str(), &h, SQLITE_OPEN_READONLY, nullptr) != SQLITE_OK) { fail("C18/sqlite-database-unreadable", db); unlink(db.c_str()); return; }
    sqlite3_stmt* st = nullptr; sqlite3_prepare_v2(h, "select a, b, c, d, e from t order by k", -1, &st, nullptr); int ri = 0;
    if (reexec) { std::string want = "KS:"; for (size_t i = 1; i <= plan["rows"].size(); ++i) want += std::to_string(i) + ","; std::stringstream ss(ro.out); std::string l, got; while (std::getline(ss, l)) if (l.compare(0, 3, "KS:") == 0) got = l;
      if (got != want) fail("C18/sqlite-prepared-statement-rows-differ", "second execute() returned '" + got + "' instead of '" + want + "'"); }
    std::vector<std::string> script_types; { std::stringstream ss(ro.out); std::string l; while (std::getline(ss, l)) if (l.find('|') != std::string::npos) script_types.push_back(l); }
    while (st && sqlite3_step(st) == SQLITE_ROW && ri < (int)plan["rows"].size()) {
      const json& row = plan["rows"][ri]; std::string want_types;
      for (int c = 0; c < 5; ++c) { const json& cell = row[c]; std::string t = cell.value("t", ""); int ct = sqlite3_column_type(st, c); std::string what = "row " + std::to_string(ri + 1) + " column " + std::to_string(c + 1) + " (" + t + ")";
        if (c) want_types += "|";
        if (t == "int") { want_types += "integer"; if (ct != SQLITE_INTEGER || sqlite3_column_int64(st, c) != cell["v"].get<long>()) fail("C18/sqlite-stored-value-differs", what); }
        else if (t == "dec") { want_types += "decimal"; if (ct != SQLITE_FLOAT || sqlite3_column_double(st, c) != cell["v"].get<double>()) fail("C18/sqlite-stored-value-differs", what); }
        else if (t == "str") { std::string v = dec(cell["v"].get<std::string>()); want_types += "string"; if (ct != SQLITE_TEXT || std::string((const char*)sqlite3_column_text(st, c), sqlite3_column_bytes(st, c)) != v) fail("C18/sqlite-stored-value-differs", what + " stored " + std::to_string(sqlite3_column_bytes(st, c)) + " bytes of " + std::to_string(v.size())); }
        else if (t == "raw") { std::string v = dec(cell["v"].get<std::string>()); want_types += "bytes"; if (v.empty()) { if (ct != SQLITE_BLOB && ct != SQLITE_NULL) fail("C18/sqlite-stored-value-differs", what); if (ct == SQLITE_NULL) want_types.replace(want_types.size() - 5, 5, "?"); } else if (ct != SQLITE_BLOB || std::string((const char*)sqlite3_column_blob(st, c), sqlite3_column_bytes(st, c)) != v) fail("C18/sqlite-stored-value-differs", what); }
        else if (t == "bool") { want_types += "integer"; if (ct != SQLITE_INTEGER || sqlite3_column_int64(st, c) != (cell["v"].get<bool>() ? 1 : 0)) fail("C18/sqlite-stored-value-differs", what); }
        else { want_types += "?"; if (ct != SQLITE_NULL) fail("C18/sqlite-stored-value-differs", what + " should be NULL"); } }
      // what the script read back: same types (a NULL column comes back untyped)
      if (ri < (int)script_types.size() && res.vclass.empty()) { std::stringstream a(script_types[ri]), b(want_types); std::string x, y; int c = 0; while (std::getline(a, x, '|') && std::getline(b, y, '|')) { ++c; if (y != "?" && x != y) fail("C18/sqlite-queried-type-differs", "row " + std::to_string(ri + 1) + " column " + std::to_string(c) + ": script sees " + x + ", bound " + y); } }
      ++ri;
    }
    { std::vector<std::string> got; std::stringstream ss(ro.out); std::string l; while (std::getline(ss, l)) if (l.size() > 2 && l[0] == 'V' && isdigit((unsigned char)l[1])) got.push_back(l);
      for (size_t i = 0; i < want_vals.size(); ++i) if (i >= got.size() || got[i] != want_vals[i]) { fail("C18/sqlite-queried-value-differs", "script read '" + printable(i < got.size() ? got[i] : "(missing)", 100) + "' but bound '" + printable(want_vals[i], 100) + "'"); break; } }
    if (ri != (int)plan["rows"].size()) fail("C18/sqlite-row-count", std::to_string(ri) + " rows stored of " + std::to_string(plan["rows"].size()));
    if (st) sqlite3_finalize(st); sqlite3_close(h); unlink(db.c_str());
  }

  std::vector<json> shrink(const json& plan) override {
    std::vector<json> v; for (const char* key : {"ops", "rows"}) if (plan.contains(key)) { json a = plan[key]; size_t n = a.size(); if (std::string(key) == "ops" && plan.value("mod", "") == "file" && n) --n; for (size_t i = (std::string(key) == "ops" && plan.value("mod", "") == "file") ? 1 : 0; i < n; ++i) { json p = plan; p[key].erase(p[key].begin() + i); v.push_back(p); } }
    return v;
  }
};

static ProfileRegistrar reg(new C18());

} // namespace
