// C08 - a function call depends only on its arguments, never on earlier calls.
#include "props/rbase.h"

using namespace sim;

namespace {

static json ilit(long long v) { return json{{"k", "int"}, {"v", v}}; }
static json blit(bool v) { return json{{"k", "bool"}, {"v", v}}; }
static json slit(const std::string& s) { return json{{"k", "str"}, {"v", s}}; }
static json var(const std::string& n, const char* t = "int") { return json{{"k", "var"}, {"n", n}, {"t", t}}; }
static json bin(const char* op, json a, json b, const char* t = "int") { return json{{"k", "bin"}, {"op", op}, {"a", a}, {"b", b}, {"t", t}}; }
static json print(std::vector<json> es) { json a = json::array(); for (auto& e : es) a.push_back(e); return json{{"k", "print"}, {"es", a}}; }
static json let(const std::string& n, json e) { return json{{"k", "let"}, {"n", n}, {"e", e}}; }
static json ret(json e) { return json{{"k", "return"}, {"e", e}}; }
static json call(const std::string& f, std::vector<json> args, const char* t = "int") { json a = json::array(); for (auto& e : args) a.push_back(e); return json{{"k", "call"}, {"f", f}, {"args", a}, {"t", t}}; }
static json iff(json c, std::vector<json> th, std::vector<json> el = {}) { json t = json::array(), e = json::array(); for (auto& x : th) t.push_back(x); for (auto& x : el) e.push_back(x); return json{{"k", "if"}, {"c", c}, {"then", t}, {"elifs", json::array()}, {"else", e}}; }
static json func(const std::string& n, std::vector<std::pair<std::string, std::string>> params, const char* rt, std::vector<json> body) {
  json p = json::array(); for (auto& x : params) p.push_back(json{{"n", x.first}, {"t", x.second}, {"typed", false}});
  json b = json::array(); for (auto& x : body) b.push_back(x);
  return json{{"k", "func"}, {"n", n}, {"params", p}, {"ret", rt}, {"body", b}};
}
static json isnull(json e) { return json{{"k", "bi"}, {"f", "isnull"}, {"args", json::array({e})}, {"t", "bool"}}; }
static json guarded(json st, const char* handler = "OTHERS") {
  json hb = json::array(); hb.push_back(print({slit("caught"), json{{"k", "err"}, {"i", 1}, {"t", "str"}}}));
  json h; h["n"] = handler; h["body"] = hb;
  json b; b["k"] = "begin"; b["body"] = json::array({st}); b["handlers"] = json::array({h});
  return b;
}

struct C08 : RBase {
  const char* id() const override { return "C08"; }
  long budget(const std::string& tier) const override { return tier == "thorough" ? 300000 : 6000; }
  std::string rule() const override {
    return "plan = call history of up to 40 calls over a function set with conditionally assigned locals, a parameter and locals named like caller variables, parameters "
           "reassigned in the body, overloads by arity, recursion up to and beyond the 255 limit, bodies with loops and blocks; earlier calls end by return, by an error handled "
           "inside, by an error escaping to the caller (caught there or not), by a failure while the arguments are bound (f(1/0), f(fault point)), or by bloc_break; the "
           "function contexts are pooled, so every call after the first runs in a recycled context. Oracle: reference interpreter with fresh locals per call (result and output "
           "of every call, caller variables untouched, RECURSION_LIMIT exactly at the 256th nested call), residue invariants of the root context, every vf object held by a "
           "callee released. Non-trivial = at least two calls of the same function with an error exit, fault or cancel in between; distinct = distinct event-trace hash.";
  }
  GenKnobs knobs(Rng& r) const override {
    GenKnobs k; k.exceptions = true; k.fault_points = true; k.fault_point_rate = 0.15; k.natural_errors = true; k.natural_error_rate = 0.02;
    k.max_depth = 2; k.top_statements = (int)r.range(1, 4); k.functions = (int)r.range(1, 2); k.objects = false; k.returns = false; k.loop_max_iter = 3;
    return k;
  }
  // a value returned at top level from a call: the callee runs to its own end first
  std::vector<std::vector<json>> extra_units(Rng& r, const json&, GenProgram&) const override {
    std::vector<std::vector<json>> U; if (!r.chance(0.4)) return U;
    switch (r.below(3)) { case 0: U.push_back({json{{"k", "return"}, {"e", call("looper", {ilit(r.range(1, 5))})}}}); break; case 1: U.push_back({json{{"k", "return"}, {"e", call("failing", {ilit(1)})}}}); break; default: U.push_back({json{{"k", "return"}, {"e", call("deep", {ilit(3)})}}}); break; }
    U.push_back({print({slit("after top-level return "), call("ov", {ilit(1)})})});
    return U;
  }
  void extra_statements(Rng& r, json& ast, GenProgram& p) const override {
    json& F = ast["funcs"];
    F.push_back(func("loc", {{"a", "bool"}}, "bool", {iff(var("a", "bool"), {let("x", ilit(1)), let("y", slit("set"))}), print({slit("loc:"), isnull(var("x")), isnull(var("y", "str"))}), ret(isnull(var("x")))}));
    F.push_back(func("shadow", {{"i0", "int"}}, "int", {let("i0", bin("+", var("i0"), ilit(100))), let("i1", ilit(5)), let("s0", slit("callee")), ret(var("i0"))}));
    F.push_back(func("ov", {{"a", "int"}}, "int", {ret(bin("+", var("a"), ilit(1)))}));
    F.push_back(func("ov", {{"a", "int"}, {"b", "int"}}, "int", {ret(bin("*", var("a"), var("b")))}));
    F.push_back(func("ov", {{"a", "int"}, {"b", "int"}, {"c", "int"}}, "int", {let("t", bin("+", var("a"), var("b"))), ret(bin("-", var("t"), var("c")))}));
    F.push_back(func("deep", {{"n", "int"}}, "int", {iff(bin(">", var("n"), ilit(0), "bool"), {ret(bin("+", call("deep", {bin("-", var("n"), ilit(1))}), ilit(1)))}), ret(ilit(0))}));
    F.push_back(func("failing", {{"n", "int"}}, "int", {let("x", var("n")), iff(bin("==", var("n"), ilit(2), "bool"), {let("z", ilit(7)), json{{"k", "raise"}, {"n", "MYERR"}}}), iff(bin("==", var("n"), ilit(3), "bool"), {let("x", bin("/", ilit(1), ilit(0)))}), print({slit("failing z unset:"), isnull(var("z"))}), ret(var("x"))}));
    { json body = json::array(); body.push_back(let("x", bin("/", ilit(10), var("n")))); json hb = json::array(); hb.push_back(let("x", ilit(-1))); json h; h["n"] = "DIVIDE_BY_ZERO"; h["body"] = hb; json blk; blk["k"] = "begin"; blk["body"] = body; blk["handlers"] = json::array({h});
      F.push_back(func("catches", {{"n", "int"}}, "int", {blk, ret(var("x"))})); }
    { json loop{{"k", "for"}, {"n", "k"}, {"a", ilit(1)}, {"b", var("n")}, {"step", nullptr}, {"dir", ""}}; loop["body"] = json::array({let("acc", bin("+", var("acc"), var("k"))), iff(bin(">", var("acc"), ilit(5), "bool"), {ret(var("acc"))})});
      F.push_back(func("looper", {{"n", "int"}}, "int", {let("acc", ilit(0)), loop, ret(bin("-", ilit(0), var("acc")))})); }
    // break / continue outside any loop of the function's own context do nothing, also when the caller is inside a loop
    F.push_back(func("stray", {{"n", "int"}}, "int", {iff(bin(">", var("n"), ilit(1), "bool"), {json{{"k", "break"}}}), iff(bin(">", var("n"), ilit(2), "bool"), {json{{"k", "continue"}}}), print({slit("after stray "), var("n")}), ret(bin("*", var("n"), ilit(2)))}));
    // the nesting depth at which a pooled context is re-entered differs from the depth at which it was left
    F.push_back(func("wrapd", {{"n", "int"}}, "int", {ret(call("deep", {var("n")}))}));
    // an error kept by a handler that itself failed must not be visible to a later call
    F.push_back(func("lasterr", {{"n", "int"}}, "str", {ret(json{{"k", "err"}, {"i", 1}, {"t", "str"}})}));
    { json hb = json::array(); hb.push_back(json{{"k", "raise"}, {"n", "OTHERERR"}}); json h; h["n"] = "MYERR"; h["body"] = hb; json blk; blk["k"] = "begin"; blk["body"] = json::array({iff(bin(">", var("n"), ilit(0), "bool"), {json{{"k", "raise"}, {"n", "MYERR"}}})}); blk["handlers"] = json::array({h});
      F.push_back(func("lasterr", {{"n", "int"}, {"m", "int"}}, "str", {blk, ret(json{{"k", "err"}, {"i", 1}, {"t", "str"}})})); }
    // 15 % of the groups: functions outside the reference interpreter's subset (typeof of a local that different paths give different types), checked by consistency alone:
    // the same call must print the same line wherever it stands in the history - on a freshly made context, on a recycled one, at any depth
    const bool consistency = r.chance(0.15);
    if (consistency) {
      auto raw = [](const std::string& t) { return json{{"k", "rawstmt"}, {"v", t}}; };
      F.push_back(raw("function retype(k) return string is\nbegin\n  if k == 1 then\n    lv = \"text\";\n  elsif k == 2 then\n    lv = 5;\n  elsif k == 3 then\n    lv = tab(1, 2.5);\n  end if;\n  return typeof(lv) + str(isnull(lv));\nend;\n"));
      F.push_back(raw("function deept(n) return string is\nbegin\n  if n > 1000 then\n    lw = true;\n  elsif n > 2000 then\n    lw = \"s\";\n  end if;\n  if n > 0 then\n    return deept(n - 1);\n  end if;\n  return typeof(lw);\nend;\n"));
      F.push_back(raw("function kind2(k) return string is\nbegin\n  if k > 0 then\n    acc = k;\n    acc = str(k);\n  end if;\n  if isnull(acc) then\n    return \"unset \" + typeof(acc);\n  end if;\n  return \"set\";\nend;\n"));
    }
    // a fault point while the arguments are bound
    int pt1 = ++p.fault_points, pt2 = ++p.fault_points;
    auto pt = [&](int id, json e) { return json{{"k", "pt"}, {"id", id}, {"m", "pt"}, {"recv", var("v", "obj")}, {"e", e}, {"t", "int"}}; };
    json& B = ast["body"]; int n = (int)r.range(6, 40);
    for (int i = 0; i < n; ++i) {
      json st;
      switch (r.below(26)) {
      case 20: { json loop{{"k", "for"}, {"n", "q1"}, {"a", ilit(1)}, {"b", ilit(3)}, {"step", nullptr}, {"dir", ""}}; loop["body"] = json::array({print({slit("stray:"), call("stray", {var("q1")})})}); st = loop; break; }
      case 21: st = print({call("stray", {ilit(r.range(0, 4))})}); break;
      // the same function called again while its own arguments are evaluated
      case 22: st = print({call("ov", {ilit(r.range(0, 9)), call("ov", {ilit(r.range(0, 9)), ilit(r.range(0, 9))})})}); break;
      case 23: st = print({call("ov", {call("ov", {ilit(1), ilit(2)}), call("ov", {ilit(3), ilit(4)})}), call("shadow", {call("shadow", {var("i0")})})}); break;
      case 24: st = print({call("loc", {call("loc", {blit(r.chance(0.5))}, "bool")}, "bool"), call("ov", {call("ov", {ilit(5), ilit(6), ilit(7)}), ilit(2), call("ov", {ilit(1), ilit(1), ilit(1)})})}); break;
      case 25: { // a handler that calls a function with a handler of its own still sees its own error afterwards
        json hb = json::array(); hb.push_back(print({slit("in handler "), call("catches", {ilit(0)}), slit(" "), json{{"k", "err"}, {"i", 1}, {"t", "str"}}, json{{"k", "err"}, {"i", 3}, {"t", "int"}}}));
        json h; h["n"] = "MYERR"; h["body"] = hb; json b; b["k"] = "begin"; b["body"] = json::array({json{{"k", "raise"}, {"n", "MYERR"}}}); b["handlers"] = json::array({h}); st = b; break; }
      case 16: st = print({call("wrapd", {ilit(r.pick(std::vector<long>{0, 1, 100, 253, 254, 255}))})}); break;
      case 17: st = print({slit("lasterr:"), call("lasterr", {ilit(0)}, "str")}); break;
      case 18: st = print({slit("lasterr2:"), call("lasterr", {ilit(r.range(0, 1)), ilit(0)}, "str")}); break;
      case 19: st = print({call("deep", {ilit(r.pick(std::vector<long>{1, 2, 100, 200}))})}); break;
      case 0: st = print({call("loc", {blit(true)}, "bool")}); break;
      case 1: st = print({call("loc", {blit(false)}, "bool")}); break;
      case 2: st = print({call("shadow", {var("i0")}), var("i0"), var("i1"), var("s0", "str")}); break;
      case 3: st = print({call("ov", {ilit(r.range(0, 9))})}); break;
      case 4: st = print({call("ov", {ilit(r.range(0, 9)), ilit(r.range(0, 9))}), call("ov", {ilit(1), ilit(2), ilit(3)})}); break;
      case 5: st = print({call("deep", {ilit(r.pick(std::vector<long>{0, 1, 5, 254, 255, 256, 300}))})}); break;
      case 6: st = print({call("failing", {ilit(r.range(1, 3))})}); break;
      case 7: st = print({call("failing", {ilit(1)})}); break;
      case 8: st = print({call("catches", {ilit(r.range(0, 2))})}); break;
      case 9: st = print({call("looper", {ilit(r.range(0, 5))})}); break;
      case 10: st = print({call("ov", {bin("/", ilit(1), ilit(0))})}); break;                     // argument binding fails
      case 11: st = print({call("ov", {ilit(3), pt(pt1, ilit(4))})}); break;                        // fault point in an argument
      case 12: st = print({call("shadow", {pt(pt2, var("i0"))})}); break;
      case 13: st = let("i2", bin("%", call("ov", {call("ov", {ilit(2), ilit(3)})}), ilit(1000))); break;
      case 14: st = print({call("failing", {call("catches", {ilit(0)})})}); break;
      default: st = print({call("loc", {bin("==", call("catches", {ilit(0)}), ilit(-1), "bool")}, "bool")}); break;
      }
      if (r.chance(0.5)) st = guarded(st, r.chance(0.7) ? "OTHERS" : "MYERR");
      B.push_back(st);
      if (consistency && r.chance(0.5)) { auto raw = [](const std::string& t) { return json{{"k", "rawstmt"}, {"v", t}}; };
        switch (r.below(6)) { case 0: B.push_back(raw("print \"SAME:rt0:\" retype(0);")); break; case 1: B.push_back(raw("print \"rt:\" retype(" + std::to_string(r.range(1, 3)) + ");")); break;
                              case 2: B.push_back(raw("print \"SAME:dt:\" deept(" + std::to_string(r.pick(std::vector<long>{0, 1, 3, 7, 20})) + ");")); break; case 3: B.push_back(raw("print \"SAME:k0:\" kind2(0);")); break;
                              case 4: B.push_back(raw("print \"k:\" kind2(" + std::to_string(r.range(1, 5)) + ");")); break; default: B.push_back(raw("print \"SAME:rt0:\" retype(0);")); B.push_back(raw("print \"SAME:k0:\" kind2(0);")); break; } }
    }
    B.push_back(print({slit("caller:"), var("i0"), var("i1"), var("s0", "str")}));
  }
};

static ProfileRegistrar reg(new C08());

} // namespace
