#!/usr/bin/env python3
"""Regenerates /verif/MANIFEST.json from the table below (single source of truth)."""
import json, subprocess

def repo_commits(prefix):
    out = subprocess.run(["git", "-C", "/repo", "log", "--format=%h %s"], capture_output=True, text=True).stdout.splitlines()
    return [l.split()[0] for l in out if l.split(" ", 1)[1].startswith(prefix)]

CHECKS = {
 "C13": dict(
   level="fault_enumeration",
   text="Seeded search over read schedules of the Parser::StreamReader seam: for each generated text (lexeme soups, valid programs, long lines padded so that hot lexemes meet offsets 1023*k) single split positions are enumerated by consecutive run numbers, plus fixed read sizes 1..2048, random multi-splits, line-oriented and oblivious readers, and the repo's own StringReader / ReadFile / include reader on LF and CRLF layouts. Every delivery must give the token stream of an independent reference lexer and of the short-line layout delivered one line per read; valid programs must unparse and print identically. Sampling, not proof: a clean batch is evidence.",
   note="Trusted: the hand-written reference lexer (cross-checked against the implementation on every short-line text of every run), the layout printer's claim that all layouts carry the same token sequence, no NUL bytes in source texts.",
   technique="deterministic simulation: seeded read-schedule (fragmentation) injection at the StreamReader seam, differential + reference-lexer oracle, replayable minimised plans",
   design="DESIGN.md section 4 (C13)"),
 "C14": dict(
   level="exploration",
   text="One compiled program is run concurrently by 2..8 cloned contexts, each on its own real thread; a seeded scheduler in an uninstrumented hand-off keeps exactly one thread runnable and decides every switch at statement entries, temporary allocations and plugin calls, so a plan (program + preemption list + per-task fault list + lifecycle operation: purge/free/break of the original or a clone, clone-of-clone, original run first) is one exactly repeatable interleaving. Per task the bytes on the clone's own descriptor, outcome, error text and deep variable dump must equal the same source run alone in a fresh never-cloned context and alone in a fresh clone; the original must be unchanged; module objects destroyed exactly once. The same plans run under ThreadSanitizer (which cannot see the hand-off, so library accesses not ordered by the library are reported although they were serialised) and under AddressSanitizer/UBSan. Seeded sampling of interleavings: evidence, not proof.",
   note="Trusted: the program generator stays inside deterministic, context-local language features (no random/getenv/input, no observable shared object state); switches happen only at hook points, finer-grained races rely on TSan's happens-before analysis; a TSan report counts only if the innermost located frame of both accesses lies in /repo.",
   technique="deterministic simulation: real threads serialised by a seeded scheduler invisible to TSan, preemption + fault + lifecycle injection, differential oracle against sequential runs, TSan/ASan monitors, replayable minimised plans",
   design="DESIGN.md section 4 (C14)"),
 "C11": dict(
   level="fault_enumeration",
   text="The faulty medium is the source stream: a valid program Q, built to touch the prefix state (retyped names, reused iterators, forall over existing tables, redefinition of every existing function and overload, nested blocks), is damaged at a token - the runs of one group share Q and enumerate truncation at successive token boundaries (every boundary in the thorough tier), then deletion, duplication, replacement, swap, stray block ends and EOF inside a string or comment - and delivered through Parser::parse, bloc_parse_executable and the statement-at-a-time parser, 1..3 deliveries per run. After every delivery each variable (value, type, constraint flags) and function (signature, body text) of an undisturbed twin context must be identical in the disturbed one, residue invariants must hold, and probe programs valid before must print and end identically on both. Enumeration is complete only for truncation positions of the sampled programs.",
   note="Trusted: the twin is built by re-running the prefix in a second fresh context; names first introduced by a rejected text are excluded from the comparison as the property says; the reference lexer supplies token boundaries; prefix, Q and probes contain no runtime fault so the damaged stream is the only fault.",
   technique="deterministic simulation: stream-fault enumeration (truncation/corruption at token boundaries) at the reader seam, twin-context differential + probe programs, ASan/UBSan monitor, replayable minimised plans",
   design="DESIGN.md section 4 (C11)"),
 "C16": dict(
   level="exploration",
   text="The module registry and the grant list are process-wide while trust is per context, so the outcome of a compile depends on the history of the whole process. A plan is an interleaving of steps by the actors Host (grant, clear grants, flip trust), a trusted context, two untrusted contexts and clones of them over the modules vf, vg (verification plugin under two names) and the real csv: import by name / by path, include, constructor at top level, inside a function body, after a typed declaration, in other letter case, calls of functions compiled earlier, clone. Every compile must be accepted iff a 3-variable reference model (granted set, loaded set, trusted flag) says so, and a creation monitor inside the plugin flags any object created in an untrusted context family that never legitimately compiled a constructor of that module. The finite core of the property's quantifier (576 combinations) is enumerated by the first run numbers of every run; longer histories are seeded samples.",
   note="Trusted: the reference model (15 lines) encodes the property statement; the host never stores objects into untrusted contexts itself; bloc_deinit_plugins only after everything is released. The dynamic loader runs for real.",
   technique="deterministic simulation: seeded multi-actor histories over process-wide singletons, reference-model oracle + in-plugin creation monitor, finite core enumerated",
   design="DESIGN.md section 4 (C16)"),
 "C17": dict(
   level="exploration",
   text="An instrumented module (vf) turns object lifetime into an event trace. Generated programs create, copy, store into tables and tuples, pass to and return from functions, overwrite and iterate object references and use them as temporaries; the simulator injects the error exits (runtime errors at fault points inside expressions, natural errors, bloc_break before statement #k) and then drives a host history over the same compiled program: run again, clone, run in the clone, clone of clone, purge, free clone, free original in sampled orders. Checked while running (every top-level statement boundary, every host step): no live variable, element or item refers to a destroyed object, no object destroyed twice, no method on a dead or foreign object, argument lists seen by the plugin are the ones written in the script; checked after release: every object destroyed exactly once. The threaded form of the same ledger check is part of C14's plans.",
   note="Trusted: the vf plugin's ledger; delayed destruction (temporary pool, function context cache) is legal until the owning contexts are released, so 'no later' is only asserted after release; reachability is computed by the deep dump of every live context.",
   technique="deterministic simulation: fault-point / cancel / lifecycle injection over generated object-handling programs, plugin event-log oracle (exactly-once, no use after destroy), ASan monitor",
   design="DESIGN.md section 4 (C17)"),
 "C15": dict(
   level="exploration",
   text="A host actor drives only blocc/bloc_capi.h with seeded sequences of up to 40 calls drawn from a handle state machine (contexts, clones, symbols, caller-owned values of every scalar type including typed nulls, expressions, executables). Texts come from a catalogue with known effects (programs that run, return values, raise handled and unhandled errors, 23 texts that fail to parse in different classes with and without the position out-parameter) plus generated programs damaged at a token (rejected or accepted, never run); the simulator injects bloc_break at statement #k, purge, free and re-use after every kind of error, and bloc_execute2 in clones. A model predicts every return value and out-parameter (typed accessors succeed exactly on the matching type and give NULL data for nulls; failures return NULL/false with the error record set; values stored through the API are read back by scripts and vice versa); library-owned pointers are re-read just before the call that ends their validity (AddressSanitizer watches); after the host frees everything it owns the in-process LeakSanitizer must report nothing.",
   note="Trusted: the catalogue's predicted effects (each entry is independent of interleaving and was validated fault-free against the implementation); symbol names are upper case; expression texts end with a newline as in the repository's own API test; a value passed to bloc_ctx_store_variable is only freed or re-assigned afterwards; 'no memory remains' is LeakSanitizer's reachability verdict; bloc_errno may be 0 for the EOF error class (the library's own code for it) as long as bloc_strerror is set.",
   technique="deterministic simulation: seeded API-call histories from a handle state machine with injected parse/runtime errors, cancel and purge; reference-model oracle, ASan use-after-free monitor, in-process LSan after release",
   design="DESIGN.md section 4 (C15)"),
 "C19": dict(
   level="exploration",
   text="The repository's own main() (apps/*.cpp compiled with -Dmain=bloc_cli_main) runs inside the per-run child process with simulator-owned standard output, --out file and stdin: stdin is an fopencookie stream whose refill sizes the plan decides, select() on it is wrapped so that the plan injects timeouts (each advancing the simulated clock by 1 s) and EINTR, dlopen of libreadline is refused, CLOCK_REALTIME is simulated. Plans combine generated programs (succeeding, failing to compile through token damage, failing at run time, returning every value type or nothing), argument vectors (empty, many, spaces, quotes, non-ASCII, leading dashes) and the modes file, '-', --out=F, -e expr and -i. The oracle is the same program run through the library in the same process: bytes on the selected output plus the returned value, $ARG echoed by the program, exit status 0 iff compiled and ran without unhandled error, 'Error (l:c):' for compile errors, and for -i the transcript minus prompts and Elapsed lines.",
   note="Trusted: the harness' rendering of a returned value uses the library's readable* helpers (the CLI's own type dispatch is what is checked); -i is fed programs without return statements or runtime errors; write errors on the output (full disk) are not injected because the property does not define them; readline is stubbed out.",
   technique="deterministic simulation: the CLI main() run in-process under simulated stdin/select/clock seams with injected short reads, timeouts and EINTR; differential oracle against the library",
   design="DESIGN.md section 4 (C19)"),
 "C07": dict(
   level="fault_enumeration",
   text="Runtime errors are the injected fault: fault points are ordinary BLOC expressions (methods of the verification module vf that throw the RuntimeError the plan prescribes - the documented module error path) placed by the generator in loop headers, while conditions, if conditions, call arguments, handler bodies and return expressions of nested begin/exception, for, forall, while, if and function structures (depth <= 3), next to natural errors (1/0, raise, t.at(99), step 0). The runs of a group share one program skeleton and enumerate which fault point fires with which error kind on which visit, then random pairs, then bloc_break before statement #k; a probe unit (further generated statements, iterator names taking another type, iterated tables changing length) runs afterwards in the same context. Oracle: an executable reference interpreter of the generated subset predicts handler selection, everything printed, the error number / user name reported to the host for every unit and the final variable store; residue invariants (loop-control depth, exec-level depth, constraint flags, pending break/continue) must hold after every unit; progress is bounded by a statement-step budget relative to the model. A quarter of the plans are also driven through the interactive loop of the real bloc command (apps/cli_parser.cpp has its own statement driver).",
   note="Trusted: the reference interpreter (sim/ref/interp.cpp, ~350 lines written from the manual; it agrees with the implementation on every fault-free run of every batch, otherwise the run is a violation); at most one effectful sub-expression per expression so evaluation order is unobservable; errors are compared by class not message; cancel runs are checked for invariants only.",
   technique="deterministic simulation: fault-point enumeration (runtime errors injected at expression positions via a plugin, cancel at statement #k), reference-interpreter oracle + residue invariants + step-bounded liveness, CLI driver route",
   design="DESIGN.md section 4 (C07)"),
 "C06": dict(
   level="exploration",
   text="Loop exit routes are the faults: generated loop nests (depth <= 3) and lattice loops - for-headers with first/limit in {INT64_MIN, MIN+1, -2..2, MAX-2..MAX}, equal, reversed, step in {absent, null, 0, -1, 1, 2, 3, MAX}, asc/desc/auto, null bounds, a bound with a visible side effect (evaluated once), bodies moving the control variable forward; forall asc/desc with writes through the iterator - are left normally, by break, continue, return, handled and unhandled runtime errors injected at fault points, and bloc_break at statement #k. A reference interpreter predicts the exact sequence of iterator values printed, the variables after the loop and the behaviour of probe statements that re-type the iterator names and change the iterated tables; termination is checked as bounded liveness (statement steps <= 200 + 30 x the model's steps, never wall-clock); residue invariants must hold after every unit.",
   note="Trusted: the reference interpreter (sim/ref/interp.cpp, written from the manual for the generated subset; any disagreement on a fault-free run is itself reported), at most one effectful sub-expression per expression so evaluation order is unobservable, errors compared by class not message, cancel runs checked for invariants only. Decimal loop bounds are not generated (the manual does not define them).",
   technique="deterministic simulation: seeded loop-header lattice + exit-route fault injection (runtime errors, cancel), reference-interpreter oracle, step-bounded liveness, residue invariants",
   design="DESIGN.md section 4 (C06)"),
 "C08": dict(
   level="exploration",
   text="Function runtime contexts are pooled and recycled, so what a call sees depends on the history of earlier calls. Plans are call histories of up to 40 calls over functions with conditionally assigned locals, a parameter and locals named like caller variables, reassigned parameters, overloads by arity, recursion up to and beyond the 255 limit, loops and blocks; earlier calls end by return, by an error handled inside, by an error escaping (caught by the caller or not), by a failure while arguments are bound (1/0, fault point in an argument), or by bloc_break. The reference interpreter gives every call fresh locals and a private variable space: result and output of every call, caller variables untouched, RECURSION_LIMIT exactly at the 256th nested call; residue invariants and the vf object ledger cover contexts lost or left dirty.",
   note="Trusted: the reference interpreter (sim/ref/interp.cpp, written from the manual for the generated subset; any disagreement on a fault-free run is itself reported), at most one effectful sub-expression per expression so evaluation order is unobservable, errors compared by class not message, cancel runs checked for invariants only.",
   technique="deterministic simulation: seeded call histories with error / argument-binding / cancel exits over a recycled context pool, reference-interpreter oracle, object ledger",
   design="DESIGN.md section 4 (C08)"),
 "C05": dict(
   level="exploration",
   text="The temporary pool is recycled at every statement and kept after an error, so aliasing bugs only show when storage is read again later. Plans interleave alias candidates (b = a, t.put(i, a), f(a), tup(a, ..), tab(n, a), returned values) over integers, strings, integer and string tables and tuples with in-place mutations of one alias (put, insert, delete, concat, set@, string concat, writes through a forall iterator) and print every alias after every mutation; the same side-effect-free expression is re-evaluated in loops; literal constants are used as sources of in-place mutated values inside loops; fault points fire inside expressions after some operands were evaluated. The reference interpreter has plain value semantics; additionally the text unparsed from the executable must be identical before and after the run (constants of the program text unchanged).",
   note="Trusted: the reference interpreter (sim/ref/interp.cpp, written from the manual for the generated subset; any disagreement on a fault-free run is itself reported), at most one effectful sub-expression per expression so evaluation order is unobservable, errors compared by class not message, cancel runs checked for invariants only. The cross-context form (a constant node written by one clone and read by another) is exercised by C14.",
   technique="deterministic simulation: seeded alias/mutation histories with fault points inside expressions, reference-interpreter (value semantics) oracle, unparse-before/after invariant",
   design="DESIGN.md section 4 (C05)"),
 "C09": dict(
   level="exploration",
   text="Containers are driven as stateful objects through histories of up to 30 operations, each compiled and run as its own unit in one context so that a failed operation does not end the history: at, put, insert, delete, concat, count on a table of integers, a table of strings and a string, set@ / @k / count on a tuple, with positions from {-1, 0, 1, n-1, n, n+1, 2^32+1, 2^63-1, null} and arguments from {matching, decimal into an integer table, typed null of the element type, typed null of the mixable type, untyped null}; statically mismatching operations and forall bodies that mutate the traversed table are units that must be refused at compile time and change nothing; mutation attempts through copies and functions; fault points in argument position (receiver already evaluated), bloc_break. A vector/tuple reference model is compared operation by operation (printed size and elements, error class, final deep store); at every statement step every element must carry exactly its table's element type and every tuple its declaration.",
   note="Trusted: the reference interpreter (sim/ref/interp.cpp, written from the manual for the generated subset; any disagreement on a fault-free run is itself reported), at most one failing or effectful sub-expression per expression so evaluation order is unobservable, errors compared by class not message, cancel runs checked for invariants only. Where the manual allows both a compile-time rejection and a run-time conversion (int/decimal mixing) the model follows the compiler's decision and checks what follows.",
   technique="deterministic simulation: seeded container-operation histories (units that survive failures) with position/argument lattices and fault points, reference-model oracle, per-step uniformity invariant",
   design="DESIGN.md section 4 (C09)"),
 "C02": dict(
   level="exploration",
   text="The schedule is the schedule of compile units. The same statement list - generated programs plus statements that move the compile-time view of a variable (re-typed variables, '$' constrained names, iterators re-used after their loop, values from an opaque function, typed null declarations) - is fed as one unit (the reference), one statement at a time through the interactive parser, and in seeded groupings (every 2-way split enumerated in the thorough tier). Whenever the whole unit compiles and runs without error every grouping must give the same output, outcome and final variable store. At every statement step a symbol under an active type constraint ('$' name, loop iterator) must keep the major type of its value. Reported monitor without a schedule: for every top-level expression of the program and a catalogue of 140 operator/builtin/member expressions the type taken from the parser equals the type of the evaluated value unless opaque.",
   note="Trusted: the whole-unit run is the reference (self-differential, no model). The static-vs-dynamic monitor samples expressions, it does not enumerate the operand-type matrix.",
   technique="deterministic simulation: seeded compile-unit schedules (one unit / statement-at-a-time / groupings), self-differential oracle, per-step type-constraint invariant, static-vs-dynamic type monitor",
   design="DESIGN.md section 4 (C02)"),
 "C18": dict(
   level="exploration",
   text="The real csv, file, utf8 and sqlite3 modules (built from /repo/modules with the sanitizers) are driven as stateful handles by generated scripts whose printed results are compared with harness-side models. file: histories of up to 25 operations (open in r/w/r+/w+/a, write string/bytes, seekset/cur/end with lattice offsets, read/readln with sizes around 0, 1, 4095, 4096, 4097, 8192 and negative, position, flush, close, reopen) over 8-bit content including NUL, CR and LF against a byte-array file model, then an independent reader (read(2) of the file); in the simulated-disk configurations the module's fopen is wrapped and the file lives behind an fopencookie stream that delivers short reads and an EIO / ENOSPC at I/O call #k (after an injected error only 'no crash, no wrong data' is asserted). sqlite3: tuples of integer/decimal/string/bytes/boolean/null are bound, read back by the script (type and content) and by the harness through the libsqlite3 C API. csv: rows of arbitrary byte fields and separator/quote choices are serialised, then deserialised whole and line by line. utf8: count/at/substr/insert/remove/string() against an own decoder for valid input with a position lattice; invalid sequences and out-of-range positions under the memory-safety monitor.",
   note="Trusted: the byte-array file model and the UTF-8 / CSV expectations in sim/props/C18.cpp; sqlite3's own file I/O and the dynamic loader run for real; glibc does not track the position of cookie streams across writes, so simulated-disk histories write sequentially and re-open read-only for reads and seeks; only the file clause has a fault dimension - csv and utf8 are reference-model checks of stateful handles; plplot is not built and not claimed.",
   technique="deterministic simulation: seeded operation histories over module handles, simulated disk behind a wrapped fopen (short reads, EIO, ENOSPC), reference models + independent readers (read(2), libsqlite3), ASan monitor",
   design="DESIGN.md section 4 (C18)"),
 "C01": dict(
   level="exploration",
   text="The first ~3500 runs of every batch enumerate every built-in with 1, 2 and 3 arguments, every operator, method and accessor over argument lattices (73 / 27 / 11 values: typed and untyped nulls, boundary integers, inf / nan, empty and structured values), each statement with operands in place and again with operands held in variables, one unit per statement. Then: generated programs over the whole statement / operator / built-in / method vocabulary (every builtin and member method with arguments from a lattice of typed and untyped nulls, 0, +-1, powers of two and their neighbours, INT64_MIN/MAX, +-0.0, 4.9e-324, inf and nan producing expressions, empty and huge positions, empty/one-element tables, tuples, bytes) and generated well-formed programs of the common generator are damaged at the stream level (byte flips, token splices between two programs, duplicated / dropped / swapped tokens, truncation, unterminated strings and comments) and delivered under seeded fragmentation through four routes: Parser::parse + Executable::run on the library, statement-at-a-time units in one context, the C API (bloc_parse_executable / bloc_execute) and the bloc command's main() run in-process on the text as a program file. The monitor is ASan + UBSan (halt on error) plus 'no exception other than ParseError / RuntimeError reaches the harness'; a statement-step budget ends non-terminating damaged programs. Nesting depth and requested sizes are bounded as the property's domain demands. In addition the same monitor is evaluated in every run of every other check.",
   note="The vocabulary sweep is plain seeded generation (labelled so in the evidence probes); the simulator's own contribution is the delivery dimension (fragmentation, damage, routes). Trusted: sanitizer coverage of the executed paths; builtins that read process-global inputs (random, getenv, getsys, input, read, readln) are not generated.",
   technique="deterministic simulation: seeded vocabulary/boundary programs damaged at the stream level and delivered fragmented through library, unit-wise, C API and CLI routes; ASan+UBSan and foreign-exception monitor",
   design="DESIGN.md section 4 (C01)"),
}

NOT_APPLICABLE = {
 "C03": "pure function of two numeric operands: no schedule, clock, I/O, fault or history can change a OP b; an operand-lattice sweep would be property-based testing, not simulation (DESIGN.md section 5)",
 "C04": "finite truth table over operand provenance, a deterministic function of the program text; its only multi-party face (shared constant nodes written by concurrent clones) is exercised under C14 (DESIGN.md section 5)",
 "C10": "string/bytes/conversion built-ins are pure functions of their arguments; round-trip laws over inputs have no fault or interleaving dimension (DESIGN.md section 5)",
 "C12": "unparse/reparse is a deterministic text->tree->text translation; the only I/O in it (re-reading saved text with long lines) is C13's workload (DESIGN.md section 5)",
}
PENDING = "claimed in DESIGN.md; simulation profile not yet registered (work in progress) - not claimed until its check is green on the unchanged tree"

props = [json.loads(l) for l in open("/verif/properties.jsonl")]
checks, na = [], []
for p in props:
    i = p["id"]
    if i in CHECKS:
        c = CHECKS[i]
        checks.append({
          "property_id": i,
          "quick_cmd": "checks/check.sh %s quick" % i,
          "thorough_cmd": "checks/check.sh %s thorough" % i,
          "evidence_file": "/verif/evidence/%s.json" % i,
          "replay_cmd_template": "build/asan/blocsim replay {path}",
          "engine": "blocsim",
          "level_claimed": {"category": c["level"], "text": c["text"], "design_ref": c["design"]},
          "level_note": c["note"],
          "technique": c["technique"]})
    elif i in NOT_APPLICABLE:
        na.append({"property_id": i, "reason": NOT_APPLICABLE[i]})
    else:
        na.append({"property_id": i, "reason": PENDING})

m = {
 "version": 1,
 "setup_cmd": "make -C /verif -j16 all",
 "hooks": {
   "guard": "BLOC_VERIF",
   "enable": "/verif/Makefile compiles /repo/blocc, /repo/apps and /repo/modules with -DBLOC_VERIF into build/<flavour>/blocsim (no CMake involved)",
   "baseline_off_cmd": "checks/baseline_off.sh",
   "source_commits": repo_commits("verif:"),
   "add_only": True},
 "engines": [{"name": "blocsim", "path": "/verif/sim", "serves_properties": sorted(CHECKS), "kind_free_text": "deterministic simulator: seeded plan generation, SimReader/stdin/select/dlopen/clock seams, serialising thread scheduler invisible to TSan, fault-point plugin (vf), worker pool, determinism gate, plan minimiser, replay"}],
 "checks": checks,
 "not_applicable": na,
 "notes": "Technique family: deterministic simulation with fault injection. Genuine defects repaired in /repo as 'fix:' commits are listed in /verif/known_findings.jsonl as fixed entries (they suppress nothing). fix commits: " + " ".join(repo_commits("fix:")),
}
json.dump(m, open("/verif/MANIFEST.json", "w"), indent=1)
print("checks:", [c["property_id"] for c in checks], "n/a:", [n["property_id"] for n in na])
