#!/bin/sh
# check.sh <property id> <quick|thorough>
# Rebuilds the simulator incrementally from /repo's current working tree (hooks on), runs the
# property's profile and rewrites evidence/<id>.json.
# Exit 0: property held on everything explored. Exit 1 + "VIOLATION property=<id> replay=<path>".
# Exit 2: harness fault (build failure, nondeterminism gate) - never with a VIOLATION line.
ID="$1"; TIER="${2:-${VERIF_TIER:-quick}}"
cd "$(dirname "$0")/.." || exit 2
case "$ID" in
  C14) FLAVOURS="tsan asan" ;;
  *) FLAVOURS="asan" ;;
esac
mkdir -p evidence out
rm -f "evidence/$ID.json"
RC=0
PARTS=""
for F in $FLAVOURS; do
  if ! make -j16 F=$F one > "out/build-$F.log" 2>&1; then
    echo "build failed (flavour $F), see out/build-$F.log"; tail -20 "out/build-$F.log"; exit 2
  fi
  ./build/$F/blocsim run "$ID" --tier "$TIER" --evidence "out/evidence-$ID-$F.json" --out out
  R=$?
  PARTS="$PARTS out/evidence-$ID-$F.json"
  if [ $R -eq 1 ]; then RC=1; elif [ $R -ne 0 ] && [ $RC -eq 0 ]; then RC=2; fi
done
python3 checks/merge_evidence.py "evidence/$ID.json" $PARTS || exit 2
exit $RC
