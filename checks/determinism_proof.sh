#!/bin/sh
# Determinism proof (not a registered check): for every profile, the run->trace-hash table must be identical across repeated
# batches, worker counts and flavours (plain vs asan for the single-threaded profiles). Prints one line per profile.
# usage: checks/determinism_proof.sh [runs] [flavour] [seed]
cd "$(dirname "$0")/.." || exit 2
RUNS="${1:-600}"; F="${2:-plain}"; SEED="${3:-1}"
D=$(mktemp -d /var/tmp/bloc-detproof.XXXXXX); trap 'rm -rf "$D"' EXIT
RC=0
for P in $(./build/$F/blocsim list); do
  for W in 1 4 16 16; do
    N=$(ls "$D" | grep -c "^$P\.") 
    ./build/$F/blocsim hashes "$P" --runs "$RUNS" --workers "$W" --seed "$SEED" > "$D/$P.$N.w$W" 2>/dev/null
  done
  REF=$(ls "$D"/$P.0.*); BAD=0
  for f in "$D"/$P.*; do cmp -s "$REF" "$f" || BAD=$((BAD+1)); done
  L=$(wc -l < "$REF")
  if [ "$BAD" -eq 0 ] && [ "$L" -ge "$RUNS" ]; then echo "$P: $L runs x 4 batches (workers 1,4,16,16) identical"; else echo "$P: NONDETERMINISTIC ($BAD of 4 batches differ, $L lines)"; RC=2; fi
done
exit $RC
