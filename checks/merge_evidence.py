#!/usr/bin/env python3
"""Merge the evidence written by one blocsim run per sanitizer flavour into evidence/<id>.json."""
import json, sys
out, parts = sys.argv[1], sys.argv[2:]
docs = []
for p in parts:
    try:
        docs.append(json.load(open(p)))
    except Exception as e:
        print("missing evidence part %s: %s" % (p, e)); sys.exit(2)
if len(docs) == 1:
    json.dump(docs[0], open(out, "w"), indent=1); sys.exit(0)
m = docs[0]
cov = m["coverage"]
cov["per_flavour"] = {}
for d in docs:
    c = d["coverage"]
    cov["per_flavour"][c.get("flavour", "?")] = {k: c[k] for k in ("evaluations", "distinct_nontrivial", "runs_per_hour", "probes", "faults_fired", "determinism", "known_findings_printed") if k in c}
for d in docs[1:]:
    c = d["coverage"]
    cov["evaluations"] += c["evaluations"]
    # the same plans are executed under each flavour: distinct traces are not added up
    cov["distinct_nontrivial"] = max(cov["distinct_nontrivial"], c["distinct_nontrivial"])
    cov["known_findings_printed"] = sorted(set(cov.get("known_findings_printed", [])) | set(c.get("known_findings_printed", [])))
    m["wall_s"] += d["wall_s"]
    m["violations"] = m.get("violations", 0) + d.get("violations", 0)
cov["flavour"] = "+".join(d["coverage"].get("flavour", "?") for d in docs)
json.dump(m, open(out, "w"), indent=1)
