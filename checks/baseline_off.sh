#!/bin/sh
# Runs the repository's own test suite with the BLOC_VERIF guard OFF, from /repo's current
# working tree, in a scratch build directory that is removed afterwards.
set -e
D=$(mktemp -d /var/tmp/bloc-baseline-off.XXXXXX)
trap 'rm -rf "$D"' EXIT
cmake -G Ninja -S /repo -B "$D" -DCMAKE_BUILD_TYPE=RelWithDebInfo -DBUILD_TESTING=ON > "$D/configure.log" 2>&1 || { cat "$D/configure.log"; exit 2; }
cmake --build "$D" -j16 > "$D/build.log" 2>&1 || { tail -50 "$D/build.log"; exit 2; }
if grep -rq "BLOC_VERIF" "$D/build.ninja"; then echo "guard unexpectedly ON"; exit 2; fi
ctest --test-dir "$D" -j8 --timeout 900 --output-junit "$D/junit.xml" > "$D/ctest.log" 2>&1 || { tail -40 "$D/ctest.log"; exit 1; }
tail -4 "$D/ctest.log"
python3 - "$D/junit.xml" <<'PY'
import sys, xml.etree.ElementTree as ET
r = ET.parse(sys.argv[1]).getroot()
n = sum(1 for _ in r.iter('testcase')); f = sum(1 for t in r.iter('testcase') if t.find('failure') is not None)
print("ctest programs: %d, failed: %d" % (n, f))
PY
